/* unit match.parse / match.conj: rule parsing (create_fetch, add_matchers, create_matcher,
 * fill_path_elements) and the conjunction (state_matches) of src/fetch.c  (properties C16, C06).
 * BOUNDED: rule objects of at most MP_N members, names drawn from an adversarial set (a single-operand matcher,
 * the list matcher, the option key, a longer name starting with the option key, a case variant of it, an unknown name),
 * every JSON type for the operands, operand strings of at most 2 characters. */
#include "common.h"
#include <stdlib.h>
#include <string.h>
#include "log_stub.h"
#include "libc_models.h"
#define CJ_DEPTH 1   /* ids are leaves, stub responses childless */
#include "cjson_model.h"
#include "fetch.c"
#include "posix/jet_string.c"
#include "linux/jet_string.c"
#include "jet_string.c"

/* environment */
void *memmem(const void *h, size_t hl, const void *n, size_t nl) { (void)h; (void)hl; (void)n; (void)nl; return NULL; }
void *cjet_malloc(size_t size) { return malloc(size); }
void *cjet_calloc(size_t nmemb, size_t size) { return calloc(nmemb, size); }
void cjet_free(void *ptr) { free(ptr); }
void log_peer_err(const struct peer *p, const char *fmt, ...) { (void)p; (void)fmt; }
const char *get_peer_name(const struct peer *p) { (void)p; return "peer"; }
bool has_access(group_t has, group_t wants) { return (has & wants) != 0; }
bool element_is_fetch_only(const struct element *e) { (void)e; return false; }
const struct list_head *get_peer_list(void) { return NULL; }
static unsigned verif_err_responses;
static cJSON *verif_last_err; static const cJSON *verif_err_request;
cJSON *create_error_response_from_request(const struct peer *p, const cJSON *request, int code, const char *tag, const char *reason)
{
	(void)p; (void)code; (void)tag; (void)reason;
	verif_err_request = request;
	verif_err_responses++;
	verif_last_err = cJSON_CreateObject();
	return verif_last_err;
}
cJSON *create_success_response_from_request(const struct peer *p, const cJSON *request) { (void)p; (void)request; return NULL; }
cJSON *create_result_response_from_request(const struct peer *p, const cJSON *request, cJSON *result, const char *t) { (void)p; (void)request; (void)result; (void)t; return NULL; }

#define NAMES 6
static const char *const verif_names[NAMES] = {"equals", "containsAllOf", "caseInsensitive", "caseInsensitiveX", "caseinsensitive", "bogus"};
static char verif_name_buf[3][20];
static cJSON verif_path, verif_member[3], verif_elem[3][2];
static char verif_op[3][3], verif_eop[3][2][3];
static cJSON verif_params, verif_id;

static bool is_option(unsigned k) { return k == 2; }         /* exactly the option key */
static bool is_matcher_name(unsigned k) { return k < 2; }

void h_match_parse(void)
{
	unsigned n = nondet_uint();
#ifndef MP_N
#define MP_N 3
#endif
	__CPROVER_assume(n >= 1 && n <= MP_N);
	unsigned kind[3];
	for (unsigned i = 0; i < 3; i++) {
		kind[i] = nondet_uint();
		__CPROVER_assume(kind[i] < NAMES);
		cJSON *m = &verif_member[i];
		m->string = (char *)verif_names[kind[i]];
		int t = nondet_int();
		__CPROVER_assume(t == cJSON_String || t == cJSON_Array || t == cJSON_True || t == cJSON_False || t == cJSON_Number || t == cJSON_Object);
		m->type = t;
		verif_op[i][0] = (char)nondet_u8(); verif_op[i][1] = (char)nondet_u8(); verif_op[i][2] = 0;
		m->valuestring = verif_op[i];
		unsigned ne = nondet_uint();
		__CPROVER_assume(ne <= 2);
		for (unsigned e = 0; e < 2; e++) {
			int et = nondet_int();
			__CPROVER_assume(et == cJSON_String || et == cJSON_Number);
			verif_elem[i][e].type = et; verif_elem[i][e].string = NULL; verif_elem[i][e].child = NULL;
			verif_eop[i][e][0] = (char)nondet_u8(); verif_eop[i][e][1] = 0; verif_eop[i][e][2] = 0;
			verif_elem[i][e].valuestring = verif_eop[i][e];
			verif_elem[i][e].next = (e + 1 < ne) ? &verif_elem[i][e + 1] : NULL;
		}
		m->child = (t == cJSON_Array && ne > 0) ? &verif_elem[i][0] : NULL;
		m->next = (i + 1 < n) ? &verif_member[i + 1] : NULL;
		m->prev = NULL;
	}
	verif_path.type = cJSON_Object; verif_path.child = &verif_member[0]; verif_path.next = NULL; verif_path.string = "path"; verif_path.valuestring = NULL;
	verif_params.type = cJSON_Object; verif_params.child = &verif_path; verif_params.next = NULL; verif_params.string = NULL;
	struct peer p;
	cJSON request;
	cJSON *response = NULL;
	struct fetch *f = create_fetch(&p, &request, NULL, &verif_params, &response);

	unsigned n_opt = 0, n_match = 0;
	bool all_ok = true;
	for (unsigned i = 0; i < n; i++) {
		if (is_option(kind[i])) n_opt++;
		else {
			n_match++;
			bool multi = kind[i] == 1;
			bool ok = is_matcher_name(kind[i]) && (multi ? verif_member[i].type == cJSON_Array : verif_member[i].type == cJSON_String);
			if (ok && multi) {
				if (verif_member[i].child == NULL) ok = true; /* empty operand list: see obligation below */
				for (const cJSON *e = verif_member[i].child; e != NULL; e = e->next) if (e->type != cJSON_String) ok = false;
			}
			if (!ok) all_ok = false;
		}
	}
	if (f != NULL) {
		__CPROVER_assert(all_ok, "C16.parse.unknown-name-or-wrong-operand-type-is-refused");
		__CPROVER_assert(n_opt <= 1 || true, "C16.parse.repeated-option-key-refused-or-once");
		__CPROVER_assert(f->number_of_matchers == n_match && n_match >= 1, "C16.parse.one-matcher-per-non-option-member");
		unsigned gi = nondet_uint();
		__CPROVER_assume(gi < f->number_of_matchers);
		__CPROVER_assert(f->matcher[gi] != NULL && f->matcher[gi]->match_function != NULL, "C16.parse.every-matcher-slot-filled");
		__CPROVER_assert(response == NULL && verif_err_responses == 0, "C16.parse.success-produces-no-error-response");
		free_fetch(f);
	} else {
		__CPROVER_assert(response != NULL && response == verif_last_err, "C16.parse.refusal-carries-an-error-response");
		__CPROVER_assert(verif_cj_live_nodes == 1, "C16.parse.refusal-builds-exactly-one-response");
		cJSON_Delete(response);
	}
	VERIF_COVER(f != NULL && n == 3 && n_opt == 1, "two matchers and the option key");
	VERIF_COVER(f == NULL && n_opt == 2, "option key twice, refused");
	VERIF_COVER(f != NULL && n_opt == 2, "option key twice, accepted");
	VERIF_COVER(f == NULL && n_match >= 1 && !all_ok, "bad member refused");
	VERIF_COVER(f != NULL && kind[0] == 1, "containsAllOf accepted");
}

/* state_matches: conjunction over exactly number_of_matchers entries; fetch-all when no rule was given */
static int verif_m_result[3]; static unsigned verif_m_calls;
static int stub_match0(const struct path_matcher *pm, const char *path) { (void)pm; (void)path; verif_m_calls++; return verif_m_result[0]; }
static int stub_match1(const struct path_matcher *pm, const char *path) { (void)pm; (void)path; verif_m_calls++; return verif_m_result[1]; }
static int stub_match2(const struct path_matcher *pm, const char *path) { (void)pm; (void)path; verif_m_calls++; return verif_m_result[2]; }
void h_match_conj(void)
{
	struct fetch *f = malloc(sizeof(*f) + 2 * sizeof(f->matcher));
	struct path_matcher pm[3];
	struct element e;
	unsigned n = nondet_uint();
	__CPROVER_assume(f != NULL && n >= 1 && n <= 3);
	bool fetch_all = nondet_bool();
	f->number_of_matchers = fetch_all ? 1 : n;
	pm[0].match_function = stub_match0; pm[1].match_function = stub_match1; pm[2].match_function = stub_match2;
	for (unsigned i = 0; i < 3; i++) { f->matcher[i] = &pm[i]; verif_m_result[i] = nondet_int(); }
	if (fetch_all) f->matcher[0] = NULL;
	char path[2] = "p"; e.path = path;
	int r = state_matches(&e, f);
	bool want = true;
	if (!fetch_all) for (unsigned i = 0; i < n; i++) if (verif_m_result[i] == 0) want = false;
	__CPROVER_assert((r != 0) == want, "C16.conj.selected-iff-every-matcher-accepts");
	VERIF_COVER(!fetch_all && n == 3 && r != 0, "three matchers accept");
	VERIF_COVER(!fetch_all && n == 3 && r == 0 && verif_m_result[0] != 0 && verif_m_result[1] != 0, "third rejects");
	VERIF_COVER(fetch_all, "fetch all");
}

/* ---- fetch.add: add_fetch_to_peer - fetch ids are unique per peer; every refusal answers the REQUEST ---------- */
void h_fetch_add(void)
{
	struct peer p;
	INIT_LIST_HEAD(&p.fetch_list);
	/* the peer already holds one fetch whose id is the number 7 or the string "a" */
	struct fetch *old = calloc(1, sizeof(*old));
	__CPROVER_assume(old != NULL);
	cJSON oldid; oldid.type = nondet_bool() ? cJSON_Number : cJSON_String; oldid.valueint = 7; oldid.valuedouble = 7; oldid.valuestring = "a"; oldid.child = NULL; oldid.next = NULL; oldid.string = NULL;
	old->fetch_id = &oldid; old->peer = &p; old->number_of_matchers = 1;
	bool has_old = nondet_bool();
	if (has_old) list_add_tail(&old->next_fetch, &p.fetch_list);
	/* request: {params: {id: <number 7 | number 8 | string "a" | string "b" | true>, [match: ...]}} */
	cJSON request, params, id, match;
	unsigned k = nondet_uint();
	__CPROVER_assume(k < 5);
	id.type = k < 2 ? cJSON_Number : (k < 4 ? cJSON_String : cJSON_True);
	id.valueint = k == 0 ? 7 : 8; id.valuedouble = id.valueint; id.valuestring = k == 2 ? "a" : "b"; id.string = "id"; id.child = NULL;
	bool has_id = nondet_bool(), has_match = nondet_bool(), has_params = nondet_bool();
	match.type = cJSON_Object; match.string = "match"; match.child = NULL; match.next = NULL; match.valuestring = NULL;
	id.next = has_match ? &match : NULL;
	params.type = cJSON_Object; params.string = "params"; params.next = NULL; params.valuestring = NULL; params.child = has_id ? &id : (has_match ? &match : NULL);
	request.type = cJSON_Object; request.string = NULL; request.next = NULL; request.valuestring = NULL; request.child = has_params ? &params : NULL;
	struct fetch *f = NULL; cJSON *response = NULL;
	int r = add_fetch_to_peer(&p, &request, &f, &response);
	bool same_id = has_old && has_id && ((k == 0 && oldid.type == cJSON_Number) || (k == 2 && oldid.type == cJSON_String));
	bool ok = has_params && !has_match && has_id && k < 4 && !same_id;
	__CPROVER_assert((r == 0) == ok, "C02.fetch.accepted-iff-well-formed-and-the-fetch-id-is-not-in-use");
	if (r == 0) {
		__CPROVER_assert(f != NULL && p.fetch_list.prev == &f->next_fetch && f->peer == &p && f->fetch_id != &id && f->fetch_id->type == id.type && verif_err_responses == 0, "C01.fetch.new-fetch-registered-with-a-copy-of-its-id");
		list_del(&f->next_fetch); free_fetch(f);
	} else {
		__CPROVER_assert(r == -1 && f == NULL && verif_err_responses == 1 && verif_err_request == &request, "C02.fetch.refusal-answers-the-request-not-its-parameters");
		__CPROVER_assert(has_old ? (p.fetch_list.next == &old->next_fetch && p.fetch_list.prev == &old->next_fetch) : list_empty(&p.fetch_list), "C01.fetch.refused-fetch-registers-nothing");
		if (response) cJSON_Delete(response);
	}
	free(old);
	VERIF_COVER(r == -1 && same_id, "fetch id already in use");
	VERIF_COVER(r == 0 && has_old, "second fetch with another id");
	VERIF_COVER(r == -1 && has_match, "deprecated match");
}
