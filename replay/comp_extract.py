"""Inputs for replay/comp_replay.c from a CBMC counterexample of the comp.* units: fragment lengths / message length.
The zlib verdicts of the ghost stub cannot be dictated to the real zlib, so besides the lengths of the trace a few
byte patterns (corrupt streams) and neighbouring lengths are tried; a run counts as reproduced only if the sanitizers
report or the replayer prints REPRODUCED."""


def extract(rec, trace_values, to_int):
    ci = rec.get("counterexample_inputs", {})
    unit = rec.get("unit", "")
    def gi(name, default=0):
        v = to_int(str(ci.get(name, default)))
        return default if v is None else v
    out = []
    if unit.startswith("comp.frames"):
        n = gi("n", 3)
        lens = [gi("len[0l]"), gi("len[1l]")] + ([gi("len[2l]")] if n == 3 else [])
        out.append(["frag"] + lens)
        out.append(["frag"] + lens + [0])
    elif unit.startswith("comp.message"):
        a = gi("len")
        for byte in (255, 0, 0x55):
            out.append(["msg", a, byte])
    elif unit.startswith("comp.sendframe"):
        ln = gi("length")
        for cand in (ln, ln + 1, 1, 2, 3, 4):
            out.append(["send", cand])
    return out
