/* Native replayer for the C18 units: runs the REAL utf8_checker.c (included below, hooks off) on a
 * concrete checker state + byte / word taken from CBMC's counterexample and compares it with the
 * reference automaton of contracts/utf8.h through every entry point. */
#include <stdio.h>
#include <stdlib.h>
#include <string.h>
#include "utf8.h"
#include "utf8_checker.c"

static bool rep_ok(struct cjet_utf8_checker c) { return U8_REP_OK(c); }

static uint8_t ref_run(uint8_t g, const uint8_t *p, size_t n)
{
	for (size_t i = 0; i < n; i++) g = u8_step(g, p[i]);
	return g;
}

static int check_seq(struct cjet_utf8_checker c0, const uint8_t *bytes, size_t n)
{
	int bad = 0;
	uint8_t g0 = u8_abs(c0);
	for (int complete = 0; complete < 2; complete++) {
		uint8_t g = ref_run(g0, bytes, n);
		bool want = U8_VERDICT(g, complete);
		struct cjet_utf8_checker c;
		bool got;
		c = c0; got = cjet_is_byte_sequence_valid(&c, bytes, n, complete);
		if (got != want) { printf("REPRODUCED cjet_is_byte_sequence_valid: verdict %d, reference %d (complete=%d)\n", got, want, complete); bad = 1; }
		c = c0; got = cjet_is_text_valid(&c, (const char *)bytes, n, complete);
		if (got != want) { printf("REPRODUCED cjet_is_text_valid: verdict %d, reference %d (complete=%d)\n", got, want, complete); bad = 1; }
		if (n % 4 == 0) {
			uint32_t w[16]; memcpy(w, bytes, n);
			c = c0; got = cjet_is_word_sequence_valid(&c, w, n / 4, complete);
			if (got != want) { printf("REPRODUCED cjet_is_word_sequence_valid: verdict %d, reference %d (complete=%d)\n", got, want, complete); bad = 1; }
		}
		if (n % 8 == 0) {
			uint64_t w[8]; memcpy(w, bytes, n);
			c = c0; got = cjet_is_word64_sequence_valid(&c, w, n / 8, complete);
			if (got != want) { printf("REPRODUCED cjet_is_word64_sequence_valid: verdict %d, reference %d (complete=%d)\n", got, want, complete); bad = 1; }
		}
	}
	return bad;
}

int main(int argc, char **argv)
{
	if (argc < 6) return 2;
	struct cjet_utf8_checker c0 = { (uint8_t)atoi(argv[2]), (uint8_t)atoi(argv[3]), (uint8_t)atoi(argv[4]) };
	unsigned long long v = strtoull(argv[5], NULL, 10);
	if (!rep_ok(c0)) { printf("state is not a valid checker state, skipped\n"); return 0; }
	int bad = 0;
	if (!strcmp(argv[1], "byte")) {
		uint8_t b = (uint8_t)v;
		struct cjet_utf8_checker c = c0;
		uint8_t g = u8_step(u8_abs(c0), b);
		bool got = is_byte_valid(&c, b);
		if (got != (g != U8_REJ)) { printf("REPRODUCED is_byte_valid(state={%u,%u,%u}, byte=0x%02X) = %d, reference automaton says %d\n", c0.start_byte, c0.length, c0.next_byte, b, got, g != U8_REJ); bad = 1; }
		else if (!(U8_SIM(c, g))) { printf("REPRODUCED is_byte_valid(state={%u,%u,%u}, byte=0x%02X): new state {%u,%u,%u} does not simulate reference state %u\n", c0.start_byte, c0.length, c0.next_byte, b, c.start_byte, c.length, c.next_byte, g); bad = 1; }
		bad |= check_seq(c0, &b, 1);
	} else {
		/* a word placed in memory order (little endian), as one and as two words, with ASCII padding */
		uint8_t buf[64];
		size_t wl = v > 0xFFFFFFFFull ? 8 : 4;
		memset(buf, 'a', sizeof(buf));
		memcpy(buf, &v, wl);
		printf("word bytes:"); for (size_t i = 0; i < wl; i++) printf(" %02X", buf[i]); printf("\n");
		bad |= check_seq(c0, buf, wl);
		bad |= check_seq(c0, buf, 8);
		bad |= check_seq(c0, buf, 16);
		/* auto-aligned entry at every alignment */
		for (int a = 0; a < 8 && !bad; a++) {
			uint8_t *mem = aligned_alloc(8, 64);
			memset(mem, 'a', 64);
			/* make the word land on an aligned word boundary of the main part */
			size_t pre = 8 - (a % 8);
			memcpy(mem + a + pre, &v, wl);
			size_t n = pre + 24;
			for (int complete = 0; complete < 2; complete++) {
				struct cjet_utf8_checker c = c0;
				uint8_t g = ref_run(u8_abs(c0), mem + a, n);
				bool want = U8_VERDICT(g, complete);
				bool got = cjet_is_word_sequence_valid_auto_alligned(&c, mem + a, n, complete);
				if (got != want) { printf("REPRODUCED cjet_is_word_sequence_valid_auto_alligned(align=%d): verdict %d, reference %d\n", a, got, want); bad = 1; }
			}
			free(mem);
		}
	}
	if (!bad) printf("NOT-REPRODUCED\n");
	return bad;
}
