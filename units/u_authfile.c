/* units pw.*: change_password / write_user_data / salt generation of src/posix/auth_file.c (property C20).
 * The credential database is a small cJSON-model tree: two users whose names are 1-2 symbolic characters (so equal,
 * different and prefix-related names occur), each with optional readonly/admin flags and a stored hash of one of
 * the four supported formats.  crypt() is an uninterpreted stub that inspects the salt it is given; the file-system
 * calls are stubs over a ghost credential file. */
#include "common.h"
#include <crypt.h>
#include <stdlib.h>
#include <string.h>
#include <unistd.h>
#include "log_stub.h"
#define CJ_DEPTH 3
#include "cjson_model.h"

/* OS / libc environment */
static unsigned verif_trunc_calls, verif_lseek_calls, verif_write_calls; static int verif_lseek_whence; static long verif_lseek_off;
static int verif_trunc_ret;
enum { F_OLD, F_EMPTY, F_PARTIAL, F_NEW };
static int verif_file;               /* ghost: what the credential file on disk holds right now */
static const char *verif_data; static size_t verif_data_len, verif_file_off;
int ftruncate(int fd, off_t length) { (void)fd; verif_trunc_calls++; if (verif_trunc_ret < 0) return -1; if (length == 0) { verif_file = F_EMPTY; verif_file_off = 0; } return 0; }
off_t lseek(int fd, off_t offset, int whence) { (void)fd; verif_lseek_calls++; verif_lseek_whence = whence; verif_lseek_off = offset; return 0; }
static bool verif_write_from_start_again;
ssize_t write(int fd, const void *buf, size_t count)
{
	(void)fd;
	verif_write_calls++;
	__CPROVER_assert(verif_write_calls <= CJ_PRINT_MAX, "C20.write.every-write-call-makes-progress");
	if (verif_write_calls == 1) { verif_data = buf; verif_data_len = count; }
	/* the bytes handed over must continue where the previous (possibly short) write stopped */
	if ((const char *)buf != verif_data + verif_file_off) verif_write_from_start_again = true;
	if (nondet_bool()) return -1;
	size_t n = nondet_size();
	__CPROVER_assume(n >= 1 && n <= count);
	verif_file_off += n;
	verif_file = (verif_file_off == verif_data_len && !verif_write_from_start_again) ? F_NEW : F_PARTIAL;
	return (ssize_t)n;
}
int close(int fd) { (void)fd; return 0; }
int open(const char *p, int f, ...) { (void)p; (void)f; return 3; }
char *realpath(const char *p, char *r) { (void)p; (void)r; return NULL; }
void *mmap(void *a, size_t l, int p, int f, int fd, off_t o) { (void)a; (void)l; (void)p; (void)f; (void)fd; (void)o; return (void *)-1; }
int munmap(void *a, size_t l) { (void)a; (void)l; return 0; }
cJSON *cJSON_ParseWithOpts(const char *v, const char **e, cJSON_bool r) { (void)v; (void)e; (void)r; return NULL; }
void cjet_get_random_bytes(void *bytes, size_t num_bytes) { for (size_t i = 0; i < num_bytes && i < 4; i++) ((uint8_t *)bytes)[i] = nondet_u8(); }
void *cjet_malloc(size_t n) { return malloc(n); }
void cjet_free(void *p) { free(p); }
int create_groups(void) { return 0; }
void free_groups(void) { }
int add_groups(const cJSON *g) { (void)g; return 0; }
void log_peer_err(const struct peer *p, const char *fmt, ...) { (void)p; (void)fmt; }
static unsigned verif_err, verif_ok; static cJSON verif_resp;
cJSON *create_error_response_from_request(const struct peer *p, const cJSON *request, int code, const char *tag, const char *reason) { (void)p; (void)request; (void)code; (void)tag; (void)reason; verif_err++; return &verif_resp; }
cJSON *create_success_response_from_request(const struct peer *p, const cJSON *request) { (void)p; (void)request; verif_ok++; return &verif_resp; }

/* crypt stub: records and inspects the salt (alphabet of crypt(3): [a-zA-Z0-9./]) */
static unsigned verif_crypt_calls; static bool verif_salt_ok; static char verif_hash_out[8] = "$6$h$hh"; static bool verif_crypt_fails;
static bool salt_char(char c) { return (c >= 'a' && c <= 'z') || (c >= 'A' && c <= 'Z') || (c >= '0' && c <= '9') || c == '.' || c == '/'; }
char *crypt(const char *key, const char *salt)
{
	(void)key;
	verif_crypt_calls++;
	/* "$id$" prefix (or none for DES), then 2..16 salt characters, then '$' and the terminator */
	size_t i = 0;
	if (salt[0] == '$') { i = 3; verif_salt_ok = (salt[1] == '1' || salt[1] == '5' || salt[1] == '6') && salt[2] == '$'; } else verif_salt_ok = true;
	size_t n = 0;
	while (n < 17 && salt_char(salt[i + n])) n++;
	if (n < 2 || n > 16 || salt[i + n] != '$' || salt[i + n + 1] != 0) verif_salt_ok = false;
	return verif_crypt_fails ? NULL : verif_hash_out;
}

#include "posix/auth_file.c"

static char verif_name[2][3], verif_stored[2][8];
static bool verif_ro[2], verif_admin[2];
static cJSON *mk_user(unsigned i)
{
	cJSON *u = cJSON_CreateObject(), *pw = cJSON_CreateString(verif_stored[i]);
	__CPROVER_assume(u != NULL && pw != NULL);
	__CPROVER_assume(cJSON_AddItemToObject(u, "password", pw));
	if (verif_ro[i]) { cJSON *t = cJSON_CreateTrue(); __CPROVER_assume(t != NULL); __CPROVER_assume(cJSON_AddItemToObject(u, "readonly", t)); }
	if (verif_admin[i]) { cJSON *t = cJSON_CreateTrue(); __CPROVER_assume(t != NULL); __CPROVER_assume(cJSON_AddItemToObject(u, "admin", t)); }
	return u;
}
static void stored_hash(char *s)
{
	/* one of the four formats cjet supports: DES "ab...", "$1$..", "$5$..", "$6$.." */
	unsigned k = nondet_uint();
	__CPROVER_assume(k < 4);
	if (k == 0) { s[0] = 'a'; s[1] = 'b'; s[2] = 'x'; s[3] = 0; }
	else { s[0] = '$'; s[1] = k == 1 ? '1' : (k == 2 ? '5' : '6'); s[2] = '$'; s[3] = 's'; s[4] = '$'; s[5] = 'h'; s[6] = 0; }
}

void h_pw_change(void)
{
	for (unsigned i = 0; i < 2; i++) {
		verif_name[i][0] = (char)nondet_u8(); verif_name[i][1] = (char)nondet_u8(); verif_name[i][2] = 0;
		__CPROVER_assume(verif_name[i][0] >= 'a' && verif_name[i][0] <= 'c' && (verif_name[i][1] == 0 || (verif_name[i][1] >= 'a' && verif_name[i][1] <= 'c')));
		verif_ro[i] = nondet_bool(); verif_admin[i] = nondet_bool();
		stored_hash(verif_stored[i]);
	}
	__CPROVER_assume(strcmp(verif_name[0], verif_name[1]) != 0);
	cJSON *db = cJSON_CreateObject(), *us = cJSON_CreateObject();
	__CPROVER_assume(db != NULL && us != NULL);
	__CPROVER_assume(cJSON_AddItemToObject(db, "users", us));
	for (unsigned i = 0; i < 2; i++) __CPROVER_assume(cJSON_AddItemToObject(us, verif_name[i], mk_user(i)));
	user_data = db; users = us; password_file = 3;
	verif_file = F_OLD;
	verif_trunc_ret = nondet_bool() ? 0 : -1; verif_crypt_fails = nondet_bool();

	/* the request: the caller is user 0, unauthenticated, or someone not in the database; the target is user 0, 1 or unknown */
	struct peer p; char caller[3], target[3], pw[3];
	unsigned who = nondet_uint(), tgt = nondet_uint();
	__CPROVER_assume(who < 3 && tgt < 3);
	caller[0] = who < 2 ? verif_name[who][0] : 'z'; caller[1] = who < 2 ? verif_name[who][1] : 0; caller[2] = 0;
	target[0] = tgt < 2 ? verif_name[tgt][0] : 'y'; target[1] = tgt < 2 ? verif_name[tgt][1] : 0; target[2] = 0;
	p.user_name = nondet_bool() ? caller : NULL;
	pw[0] = 'p'; pw[1] = 'w'; pw[2] = 0;
	cJSON request;
	cJSON *r = change_password(&p, &request, target, pw);

	bool authorised = p.user_name != NULL && tgt < 2 && !verif_ro[tgt] && ((who < 2 && who == tgt) || (who < 2 && verif_admin[who]));
	const cJSON *stored = tgt < 2 ? cJSON_GetObjectItem(cJSON_GetObjectItem(us, target), "password") : NULL;
	bool replaced = stored != NULL && strcmp(stored->valuestring, verif_hash_out) == 0;
	__CPROVER_assert(r == &verif_resp && verif_err + verif_ok == 1, "C20.change.exactly-one-response");
	__CPROVER_assert(pw[0] == 0 && pw[1] == 0, "C08.change.password-buffer-wiped-on-every-exit");
	if (!authorised) {
		__CPROVER_assert(verif_ok == 0 && verif_crypt_calls == 0 && verif_trunc_calls == 0 && verif_write_calls == 0 && !replaced && verif_file == F_OLD, "C20.change.unauthorised-request-changes-nothing");
	} else {
		__CPROVER_assert(verif_ok == 0 || (replaced && verif_file == F_NEW), "C20.change.success-means-new-password-stored-and-on-disk");
		if (verif_crypt_calls > 0) __CPROVER_assert(verif_salt_ok, "C20.salt.well-formed-salt-for-the-accounts-method");
		if (verif_write_calls > 0) __CPROVER_assert(verif_trunc_calls == 1 && verif_lseek_calls == 1 && verif_lseek_whence == SEEK_SET && verif_lseek_off == 0, "C20.write.database-rewritten-from-offset-zero");
	}
	/* other account never touched */
	unsigned other = tgt == 0 ? 1 : 0;
	const cJSON *opw = cJSON_GetObjectItem(cJSON_GetObjectItem(us, verif_name[other]), "password");
	__CPROVER_assert(opw != NULL && strcmp(opw->valuestring, verif_stored[other]) == 0, "C20.change.other-accounts-untouched");
	/* crash atomicity / short writes: the file on disk holds either the old or the new credential set */
	__CPROVER_assert(verif_file == F_OLD || verif_file == F_NEW, "C20.write.file-holds-old-or-new-credentials-after-the-call");
	__CPROVER_assert(!verif_write_from_start_again, "C20.write.short-write-continues-where-it-stopped");
	cJSON_Delete(db);
	VERIF_COVER(verif_ok == 1 && who == tgt, "own password changed");
	VERIF_COVER(verif_ok == 1 && who != tgt && who < 2, "admin changes another account");
	VERIF_COVER(!authorised && p.user_name != NULL && tgt < 2 && who < 2 && who != tgt && !verif_admin[who] && !verif_ro[tgt] && caller[0] == target[0] && caller[1] == 0, "caller's name is a proper prefix of the target's");
	VERIF_COVER(!authorised && tgt < 2 && verif_ro[tgt], "read-only target");
}
