/* Native demonstration against the real sources: a "get" request lists a state while ONE allocation made while the
 * answer is built fails (every allocation of the request in turn).  The request may be answered with an error, but a
 * result that is sent lists only complete states (path and value) and nothing may leak.
 * Exit 1 if an incomplete state is listed or the accounting does not return to its baseline.
 * Build: as replay/rt_reply_allocfail_demo.c (same source list, same harness, -Wl,--wrap=malloc -Wl,--wrap=calloc). */
#include "alloc_harness.h"

static const char add_request[] = "{\"id\":1,\"method\":\"add\",\"params\":{\"path\":\"demo/state\",\"value\":1}}";
static const char get_request[] = "{\"id\":2,\"method\":\"get\",\"params\":{\"path\":{\"startsWith\":\"demo\"}}}";
static struct test_peer owner, client;

int main(void)
{
	init_parser();
	if (element_hashtable_create() != 0) return 2;
	if ((test_peer_init(&owner, "owner") != 0) || (test_peer_init(&client, "client") != 0)) return 2;
	feed(&owner, add_request);
	const size_t baseline = cjet_get_alloc_size();
	for (long n = 0; n < 80; n++) {
		client.messages = 0; client.last[0] = '\0';
		arm(n);
		feed(&client, get_request);
		disarm();
		CHECK(client.messages <= 1, "fault #%ld: %d answers", n, (int)client.messages);
		if (client.messages > 0) {
			cJSON *m = cJSON_Parse(client.last);
			const cJSON *r = m ? cJSON_GetObjectItem(m, "result") : NULL;
			if (r != NULL) {
				for (const cJSON *s = r->child; s != NULL; s = s->next)
					CHECK(cJSON_GetObjectItem(s, "path") != NULL && cJSON_GetObjectItem(s, "value") != NULL, "fault #%ld: incomplete state listed: %s", n, client.last);
			}
			cJSON_Delete(m);
		}
		CHECK(cjet_get_alloc_size() == baseline, "fault #%ld: accounting did not return to baseline (%zu != %zu)", n, cjet_get_alloc_size(), baseline);
		if (errors != 0) break;
	}
	test_peer_close(&client);
	test_peer_close(&owner);
	element_hashtable_delete();
	if (errors != 0) { fprintf(stderr, "REPRODUCED: %d check(s) failed\n", errors); return 1; }
	printf("ok (%ld faults injected)\n", faults_injected);
	return 0;
}
