/* units utf8.bytes / utf8.text / utf8.word32 / utf8.word64 / utf8.auto / utf8.split:
 * the sequence entry points of utf8_checker.c, any length, any content, any checker state. */
#include "common.h"
#include <stdlib.h>
#include "utf8.h"
uint8_t verif_u8_g; const uint8_t *verif_u8_base; size_t verif_u8_n;
#include "utf8_checker.c"

/* an arbitrary text: `consumed` bytes already seen by the ghost, then `length` items of unit_bytes
 * bytes each; the call under test starts at buf + consumed */
#define ARBITRARY_TEXT(max, unit_bytes) \
	size_t length, consumed; \
	__CPROVER_assume(length <= (max) && consumed <= 64 && consumed % (unit_bytes) == 0); \
	uint8_t *buf = malloc(consumed + length * (unit_bytes) + 1); \
	__CPROVER_assume(buf != NULL); \
	struct cjet_utf8_checker c; \
	bool complete; \
	verif_u8_g = nondet_u8(); \
	verif_u8_base = buf; \
	verif_u8_n = consumed;

void h_utf8_bytes(void)
{
	ARBITRARY_TEXT(1000000, 1)
	bool r = cjet_is_byte_sequence_valid(&c, buf + consumed, length, complete);
	VERIF_COVER(r && length > 3 && c.next_byte == 3 && consumed == 5, "accepted, mid code point");
	VERIF_COVER(!r, "rejected");
}

void h_utf8_text(void)
{
	ARBITRARY_TEXT(1000000, 1)
	bool r = cjet_is_text_valid(&c, (const char *)buf + consumed, length, complete);
	VERIF_COVER(r && length > 3 && c.next_byte == 3 && consumed == 5, "accepted, mid code point");
	VERIF_COVER(!r, "rejected");
}

void h_utf8_word32(void)
{
	ARBITRARY_TEXT(250000, 4)
	bool r = cjet_is_word_sequence_valid(&c, (const uint32_t *)(buf + consumed), length, complete);
	VERIF_COVER(r && length > 2 && c.next_byte == 2 && consumed == 8, "accepted, mid code point");
	VERIF_COVER(!r, "rejected");
}

void h_utf8_word64(void)
{
	ARBITRARY_TEXT(125000, 8)
	bool r = cjet_is_word64_sequence_valid(&c, (const uint64_t *)(buf + consumed), length, complete);
	VERIF_COVER(r && length > 2 && c.next_byte == 2 && consumed == 8, "accepted, mid code point");
	VERIF_COVER(!r, "rejected");
}

/* auto-aligned front end: every length, every alignment class of the start address */
void h_utf8_auto(void)
{
	size_t length;
	unsigned align;
	__CPROVER_assume(length <= 1000000);
	__CPROVER_assume(align < 8);
	uint8_t *buf = malloc(length + 8);
	__CPROVER_assume(buf != NULL);
	struct cjet_utf8_checker c;
	bool complete;
	verif_u8_g = nondet_u8();
	verif_u8_base = buf;
	verif_u8_n = align;
	bool r = cjet_is_word_sequence_valid_auto_alligned(&c, buf + align, length, complete);
	VERIF_COVER(r && length > 30 && align == 3, "accepted, unaligned start");
	VERIF_COVER(r && length > 30 && align == 0, "accepted, aligned start");
	VERIF_COVER(r && length == 7, "accepted, short text");
	VERIF_COVER(!r, "rejected");
}

/* "same verdict however the text is split": the text [0,n) presented as [0,k) then [k,n) to the
 * byte-wise entry point.  With the callee replaced by its contract the second call continues at the
 * ghost's read position and in the ghost's state, so the final verdict is the reference verdict of
 * the whole text (a caller stops at the first `false`). */
void h_utf8_split(void)
{
	size_t length, k;
	__CPROVER_assume(length <= 1000000 && k <= length);
	uint8_t *buf = malloc(length + 1);
	__CPROVER_assume(buf != NULL);
	struct cjet_utf8_checker c;
	cjet_init_checker(&c);
	verif_u8_g = U8_ACC;
	verif_u8_base = buf;
	verif_u8_n = 0;
	bool complete;
	bool r1 = cjet_is_byte_sequence_valid(&c, buf, k, false);
	bool r = false;
	if (r1) {
		__CPROVER_assert(verif_u8_n == k, "C18.split.second-call-continues-at-split-point");
		r = cjet_is_byte_sequence_valid(&c, buf + k, length - k, complete);
		__CPROVER_assert(verif_u8_g == U8_REJ || verif_u8_n == length, "C18.split.consumed-all");
	}
	__CPROVER_assert(r == U8_VERDICT(verif_u8_g, complete) || (!r1 && verif_u8_g == U8_REJ), "C18.split.verdict-equals-whole-text-verdict");
	VERIF_COVER(r && k > 0 && k < length, "accepted split text");
	VERIF_COVER(!r1, "first part rejected");
	VERIF_COVER(r1 && !r, "second part rejected");
}
