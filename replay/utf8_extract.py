"""Candidate inputs for the utf8 replayer from a CBMC trace: checker states, bytes and words."""
import json
import re


def extract(rec, trace_values, to_int):
    trace = rec.get("cbmc_trace", [])
    states, words, bytes_ = [], [], []
    for line in trace:
        m = re.search(r'= (\{"start_byte".*\})\s*$', line)
        if m:
            try:
                d = json.loads(m.group(1))
                states.append((int(d["start_byte"]), int(d["length"]), int(d["next_byte"])))
            except Exception:
                pass
    for base, val in trace_values(trace, {"tmp", "byte", "b", "byte_wrapper"}):
        v = to_int(val)
        if v is None:
            continue
        if base == "tmp":
            words.append(v)
        else:
            bytes_.append(v & 0xFF)
    ci = rec.get("counterexample_inputs", {})
    try:
        states.append((int(ci["c.start_byte"]), int(ci["c.length"]), int(ci["c.next_byte"])))
    except Exception:
        pass
    states = list(dict.fromkeys(states[-6:] + [(255, 1, 1)]))
    words = list(dict.fromkeys(words[-12:]))
    bytes_ = list(dict.fromkeys(bytes_[-12:]))
    out = []
    for st in states:
        for w in words:
            out.append(["word", st[0], st[1], st[2], w])
        for b in bytes_:
            out.append(["byte", st[0], st[1], st[2], b])
    return out
