/*
 * Small fault-injection harness shared by the C15 demos.
 *
 * The demo is linked against the real daemon sources (the same set of files
 * the unit tests put into their "jet" library, see src/tests/CMakeLists.txt).
 * malloc()/calloc() references of those sources are redirected with
 * `ld --wrap` to the wrappers below, so that the N-th allocation performed by
 * cjet_malloc()/cjet_calloc() (and therefore also by cJSON, which is hooked
 * to cjet_malloc() by init_parser()) can be made to fail.
 *
 * What is not needed is stubbed the same way src/tests does it (log.cpp,
 * auth_stub.cpp, socket_read/socket_close, fake event loop).
 */
#ifndef C15_HARNESS_H
#define C15_HARNESS_H

#include <stdarg.h>
#include <stdbool.h>
#include <stddef.h>
#include <stdint.h>
#include <stdio.h>
#include <stdlib.h>
#include <string.h>
#include <unistd.h>

#include "alloc.h"
#include "authenticate.h"
#include "compiler.h"
#include "eventloop.h"
#include "parse.h"
#include "peer.h"
#include "socket.h"
#include "table.h"
#include "json/cJSON.h"

/* ---- fault injection ------------------------------------------------- */
static long alloc_counter;
static long fail_at = -1; /* -1: never fail */
static long faults_injected;

void *__real_malloc(size_t size);
void *__real_calloc(size_t nmemb, size_t size);

static int should_fail(void)
{
	if (fail_at < 0) {
		return 0;
	}
	if (alloc_counter++ == fail_at) {
		faults_injected++;
		return 1;
	}
	return 0;
}

void *__wrap_malloc(size_t size)
{
	if (should_fail()) {
		return NULL;
	}
	return __real_malloc(size);
}

void *__wrap_calloc(size_t nmemb, size_t size)
{
	if (should_fail()) {
		return NULL;
	}
	return __real_calloc(nmemb, size);
}

/* make allocation number n (0-based, counted from now on) fail */
static void arm(long n)
{
	alloc_counter = 0;
	fail_at = n;
}

/* returns true if the fault was actually injected */
static bool disarm(void)
{
	bool injected = (fail_at >= 0) && (alloc_counter > fail_at);
	fail_at = -1;
	return injected;
}

/* ---- stubs (cf. src/tests/log.cpp, auth_stub.cpp, combined_test.cpp) -- */
void log_err(const char *format, ...) { (void)format; }
void log_warn(const char *format, ...) { (void)format; }
void log_info(const char *format, ...) { (void)format; }

const cJSON *credentials_ok(const char *user, char *passwd)
{
	(void)user;
	(void)passwd;
	return NULL;
}

cJSON *change_password(const struct peer *p, const cJSON *request, const char *user, char *passwd)
{
	(void)p;
	(void)request;
	(void)user;
	(void)passwd;
	return NULL;
}

cjet_ssize_t socket_read(socket_type sock, void *buf, size_t count)
{
	(void)sock;
	(void)count;
	uint64_t number_of_timeouts = 1;
	memcpy(buf, &number_of_timeouts, sizeof(number_of_timeouts));
	return 8;
}

int socket_close(socket_type sock)
{
	return close(sock);
}

static enum eventloop_return fake_add(const void *this_ptr, const struct io_event *ev)
{
	(void)this_ptr;
	(void)ev;
	return EL_CONTINUE_LOOP;
}

static void fake_remove(void *this_ptr, const struct io_event *ev)
{
	(void)this_ptr;
	(void)ev;
}

static struct eventloop loop = {.add = fake_add, .remove = fake_remove};

/* ---- test peers ------------------------------------------------------- */
#define LAST_MSG_SIZE 4096

struct test_peer {
	struct peer peer; /* must be first */
	unsigned int messages;
	char last[LAST_MSG_SIZE];
};

static int test_send_message(const struct peer *p, char *rendered, size_t len)
{
	struct test_peer *tp = (struct test_peer *)p;
	tp->messages++;
	if (len >= LAST_MSG_SIZE) {
		len = LAST_MSG_SIZE - 1;
	}
	memcpy(tp->last, rendered, len);
	tp->last[len] = '\0';
	return 0;
}

static int test_peer_init(struct test_peer *tp, const char *name)
{
	memset(tp, 0, sizeof(*tp));
	if (init_peer(&tp->peer, true, &loop) != 0) {
		return -1;
	}
	tp->peer.send_message = test_send_message;
	set_peer_name(&tp->peer, name);
	return 0;
}

static void test_peer_close(struct test_peer *tp)
{
	free_peer_resources(&tp->peer);
}

/* feed one complete message to the daemon as if received from tp */
static int feed(struct test_peer *tp, const char *msg)
{
	return parse_message(msg, strlen(msg), &tp->peer);
}

/* ---- checks ----------------------------------------------------------- */
static int errors;

#define CHECK(cond, ...)                               \
	do {                                           \
		if (!(cond)) {                         \
			fprintf(stderr, "FAIL: ");     \
			fprintf(stderr, __VA_ARGS__);  \
			fprintf(stderr, "\n");         \
			errors++;                      \
		}                                      \
	} while (0)

#endif
