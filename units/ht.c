/* units ht.*: the hopscotch table of src/hashtable.h, instantiated by the real DECLARE_HASHTABLE_*
 * macro (see contracts/ht_contracts.h) for order HT_ORDER and key kind HT_KIND.
 * Contract enforcement by hand-instrumented harness: assume(PRE); snapshot; call; assert(POST). */
#include "common.h"
#include "ht_contracts.h"

/* HT_ONLY=n restricts a harness to its n-th postcondition (lets the driver solve them in parallel) */
#ifdef HT_ONLY
#define HT_ASSERT(n, cond, tag) do { if ((n) == HT_ONLY) __CPROVER_assert(cond, tag); } while (0)
#else
#define HT_ASSERT(n, cond, tag) __CPROVER_assert(cond, tag)
#endif

void h_ht_get(void)
{
	struct ht_table T, T0;
	ht_key_t key;
	ht_val_t out;
	__CPROVER_assume(HT_PRE(&T));
	T0 = T;
	int r = hashtable_get_VT(T.s, key, &out);
	HT_ASSERT(1, HT_GET_POST_RESULT(&T0, key, r), "C17.get.found-iff-present");
	HT_ASSERT(2, HT_GET_POST_VALUE(&T0, key, r, out), "C17.get.returns-stored-value");
	HT_ASSERT(3, ht_same(&T0, &T), "C17.get.table-unchanged");
	VERIF_COVER(r == HASHTABLE_SUCCESS, "found");
	VERIF_COVER(r == HASHTABLE_SUCCESS && T.s[HT_WRAP(HT_H(key) + HT_N / 2 - 1)].key == key && HT_H(key) == HT_N - 1, "found at the far end of the add range, wrapped around the table end");
	VERIF_COVER(r != HASHTABLE_SUCCESS && T.s[HT_H(key)].hop_info != 0, "not found although its home has entries");
}

void h_ht_remove(void)
{
	struct ht_table T, T0;
	ht_key_t key, k2;
	ht_val_t out;
	ht_val_t *outp = nondet_bool() ? &out : NULL;
	__CPROVER_assume(HT_PRE(&T));
	T0 = T;
	int r = hashtable_remove_VT(T.s, key, outp);
	HT_ASSERT(1, HT_REMOVE_POST_RESULT(&T0, key, r), "C17.remove.success-iff-was-present");
	HT_ASSERT(2, HT_REMOVE_POST_VALUE(&T0, key, r, outp), "C17.remove.returns-removed-value");
	HT_ASSERT(3, HT_REMOVE_POST_VIEW(&T0, &T, key, k2), "C17.remove.view-is-old-view-minus-key");
	HT_ASSERT(4, ht_inv(&T) && ht_values_ok(&T), "C17.remove.inv-preserved");
	HT_ASSERT(5, r == HASHTABLE_SUCCESS || ht_same(&T0, &T), "C17.remove.failure-changes-nothing");
	VERIF_COVER(r == HASHTABLE_SUCCESS && outp != NULL, "removed");
	VERIF_COVER(r == HASHTABLE_SUCCESS && outp == NULL, "removed, value not wanted");
	VERIF_COVER(r != HASHTABLE_SUCCESS, "not found");
	VERIF_COVER(r == HASHTABLE_SUCCESS && k2 != key && ht_lookup(&T, k2) != HT_NONE && HT_H(k2) == HT_H(key), "a colliding key survives");
}

void h_ht_put(void)
{
	struct ht_table T, T0;
	ht_key_t key, k2;
	ht_val_t v, prev;
	ht_val_t *prevp = nondet_bool() ? &prev : NULL;
	__CPROVER_assume(HT_PRE(&T));
	__CPROVER_assume(v.vals[0] != HT_NONE);
	T0 = T;
	int r = hashtable_put_VT(T.s, key, v, prevp);
	HT_ASSERT(1, HT_PUT_POST_RESULT(&T0, key, r), "C17.put.result");
	HT_ASSERT(2, HT_PUT_POST_NOT_REFUSED(&T0, key, r), "C17.put.refused-only-when-no-slot-in-reach");
	HT_ASSERT(3, HT_PUT_POST_VIEW(&T0, &T, key, v.vals[0], r, k2), "C17.put.view-is-old-view-plus-binding");
	HT_ASSERT(4, HT_PUT_POST_PREV(&T0, key, r, prevp), "C17.put.reports-previous-value");
	HT_ASSERT(5, ht_inv(&T) && ht_values_ok(&T), "C17.put.inv-preserved");
	VERIF_COVER(r == HASHTABLE_SUCCESS && ht_lookup(&T0, key) == HT_NONE, "inserted new key");
	VERIF_COVER(r == HASHTABLE_SUCCESS && ht_lookup(&T0, key) != HT_NONE, "overwrote existing key");
	VERIF_COVER(r == HASHTABLE_FULL, "refused: add range full");
	VERIF_COVER(r == HASHTABLE_KEYINVAL, "refused: reserved key");
	VERIF_COVER(r == HASHTABLE_SUCCESS && HT_H(key) == HT_N - 1 && T0.s[HT_N - 1].key != HT_INVALID, "insert probes across the table end");
}

/* hashtable_create: establishes Inv with an empty view (allocation may fail) */
void h_ht_create(void)
{
	ht_slot_t *t = hashtable_create_VT();
	if (t != NULL) {
		struct ht_table T;
		ht_key_t k2;
		memcpy(T.s, t, sizeof(T.s));
		HT_ASSERT(1, ht_inv(&T), "C17.create.inv-established");
		HT_ASSERT(2, ht_lookup(&T, k2) == HT_NONE, "C17.create.view-empty");
		hashtable_delete_VT(t);
	}
	VERIF_COVER(t != NULL, "created");
	VERIF_COVER(t == NULL, "allocation failed");
}

#if HT_ORDER >= 7
/* ---- displacement: find_closer_entry (reachable only for orders >= 7) -------------------------------
 * "Inv with a hole at f": slot f is unreferenced and not part of the view (its stale key/value are ignored).
 * The free position HT_F is a compile-time constant per unit: the table is rotation-symmetric (all index
 * arithmetic is modulo N, the hash function is arbitrary), so one position stands for all - stated as an
 * assumption in the evidence; positions 0 (wrap-around), N/2 and N-1 are run. */
#ifndef HT_F
#define HT_F 0
#endif
static inline _Bool ht_inv_hole(const struct ht_table *t, uint32_t f)
{
	struct ht_table tmp = *t;
	tmp.s[f].key = HT_INVALID;
	return ht_inv(&tmp) && ht_values_ok(&tmp);
}
static inline void *ht_lookup_hole(const struct ht_table *t, uint32_t f, ht_key_t k)
{
	struct ht_table tmp = *t;
	tmp.s[f].key = HT_INVALID;
	return ht_lookup(&tmp, k);
}
/* some entry within the 31 slots before f could be moved to f without leaving its home's hop range */
static inline _Bool ht_movable_exists(const struct ht_table *t, uint32_t f)
{
	for (uint32_t d = 1; d < 32; d++) {
		uint32_t cp = HT_WRAP(f - d);
		for (uint32_t i = 0; i < d; i++)
			if ((t->s[cp].hop_info >> i) & 1u) return 1;
	}
	return 0;
}
void h_ht_closer(void)
{
	struct ht_table T, T0;
	ht_key_t k2;
	const uint32_t f = HT_F;
	__CPROVER_assume(ht_inv_hole(&T, f));
	T0 = T;
	uint32_t r = find_closer_entry_VT(T.s, f);
	if (r == 0xffffffff) {
		HT_ASSERT(1, ht_same(&T0, &T), "C17.closer.no-candidate-changes-nothing");
		HT_ASSERT(2, !ht_movable_exists(&T0, f), "C17.closer.gives-up-only-when-no-entry-can-move");
	} else {
		HT_ASSERT(3, r < HT_N && HT_WRAP(f - r) >= 1 && HT_WRAP(f - r) <= 31, "C17.closer.hole-moves-closer-to-the-home");
		HT_ASSERT(4, r < HT_N && ht_inv_hole(&T, r), "C17.closer.inv-preserved-with-the-new-hole");
		HT_ASSERT(5, r < HT_N && ht_lookup_hole(&T0, f, k2) == ht_lookup_hole(&T, r, k2), "C17.closer.view-unchanged");
	}
	VERIF_COVER(r != 0xffffffff && HT_WRAP(f - r) == 31, "entry moved by 31 slots");
	VERIF_COVER(r != 0xffffffff && HT_WRAP(f - r) == 1, "entry moved by one slot");
	VERIF_COVER(r == 0xffffffff, "no candidate");
}
#endif
