/* Native replayer for bs.writev / bs.flush: the REAL buffered_socket.c against a scripted kernel.
 * usage: bs_replay <pend0> <count> <l0> <l1> <k1> <k2> ...   ki > 0: the kernel accepts ki bytes,
 *        ki == -11: EAGAIN, ki == -32: EPIPE; after the script: EAGAIN.
 * Checks the C10 contract: r == 0 -> wire ++ pending == old pending ++ frame; r == -1 without a hard socket
 * error -> wire ++ pending == old pending (nothing of the refused frame sent or queued). */
#include <errno.h>
#include <stdio.h>
#include <stdlib.h>
#include <string.h>
#include <stdint.h>
#include <stdbool.h>
void log_err(const char *f, ...) { (void)f; }
void log_warn(const char *f, ...) { (void)f; }
void log_info(const char *f, ...) { (void)f; }
#include "buffered_socket.c"

static long script[64]; static int script_len, script_pos;
static uint8_t wire[1 << 16]; static size_t wire_len; static bool hard_error; static int the_errno;
enum cjet_system_error get_socket_error(void) { return the_errno; }
const char *get_socket_error_msg(enum cjet_system_error err) { (void)err; return "err"; }
cjet_ssize_t socket_read(socket_type s, void *b, size_t c) { (void)s; (void)b; (void)c; the_errno = EAGAIN; return -1; }
int socket_close(socket_type s) { (void)s; return 0; }
void *cjet_malloc(size_t n) { return malloc(n); }
void cjet_free(void *p) { free(p); }
void *jet_memmem(const void *h, size_t hl, const void *n, size_t nl) { return memmem(h, hl, n, nl); }
cjet_ssize_t socket_writev_with_prefix(socket_type sock, void *buf, size_t len, struct socket_io_vector *io_vec, unsigned int count)
{
	(void)sock;
	size_t total = len;
	for (unsigned i = 0; i < count; i++) total += io_vec[i].iov_len;
	if (total == 0) return 0;
	long k = script_pos < script_len ? script[script_pos++] : -EAGAIN;
	if (k < 0) { the_errno = (int)-k; if (the_errno != EAGAIN) hard_error = true; return -1; }
	if ((size_t)k > total) k = (long)total;
	size_t done = 0;
	for (size_t j = 0; j < len && done < (size_t)k; j++, done++) wire[wire_len++] = ((uint8_t *)buf)[j];
	for (unsigned i = 0; i < count; i++)
		for (size_t j = 0; j < io_vec[i].iov_len && done < (size_t)k; j++, done++) wire[wire_len++] = ((const uint8_t *)io_vec[i].iov_base)[j];
	return k;
}

int main(int argc, char **argv)
{
	if (argc < 5) return 2;
	size_t pend0 = strtoul(argv[1], 0, 10); unsigned count = atoi(argv[2]); size_t l0 = strtoul(argv[3], 0, 10), l1 = strtoul(argv[4], 0, 10);
	for (int i = 5; i < argc && script_len < 64; i++) script[script_len++] = atol(argv[i]);
	if (pend0 > CONFIG_MAX_WRITE_BUFFER_SIZE || count > 2 || l0 > 60000 || l1 > 60000) { printf("inputs out of range, skipped\n"); return 0; }
	static struct buffered_socket bs;
	static uint8_t a[60000], b[60000], expect[200000];
	bs.to_write = pend0;
	size_t n = 0;
	for (size_t i = 0; i < pend0; i++) expect[n++] = bs.write_buffer[i] = (uint8_t)(1 + i % 50);
	size_t keep = n;
	for (size_t i = 0; i < l0; i++) a[i] = (uint8_t)(100 + i % 50);
	for (size_t i = 0; i < l1; i++) b[i] = (uint8_t)(200 + i % 50);
	if (count > 0) for (size_t i = 0; i < l0; i++) expect[n++] = a[i];
	if (count > 1) for (size_t i = 0; i < l1; i++) expect[n++] = b[i];
	struct socket_io_vector iov[2] = {{a, l0}, {b, l1}};
	int r = buffered_socket_writev(&bs, iov, count);
	size_t out = wire_len + bs.to_write;
	static uint8_t got[200000];
	memcpy(got, wire, wire_len); memcpy(got + wire_len, bs.write_buffer, bs.to_write);
	printf("writev returned %d: %zu bytes on the wire, %zu pending (old pending %zu, frame %zu)%s\n", r, wire_len, bs.to_write, pend0, n - keep, hard_error ? ", hard socket error" : "");
	if (r == 0 && (out != n || memcmp(got, expect, n) != 0)) { printf("REPRODUCED: accepted frame is not completely and in order on wire ++ pending\n"); return 1; }
	if (r != 0 && !hard_error && (out != keep || memcmp(got, expect, keep) != 0)) { printf("REPRODUCED: refused frame (no socket error) left %zu byte(s) of itself sent or queued - a torn frame\n", out - keep); return 1; }
	printf("NOT-REPRODUCED\n");
	return 0;
}
