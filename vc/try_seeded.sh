#!/bin/sh
# usage: vc/try_seeded.sh <patch.diff> <property> [check args]   -- runs a property check on a scratch copy of /repo with the patch applied
set -u
patch=$1; prop=$2; shift 2
tmp=$(mktemp -d /tmp/cjet-seed-XXXXXX)
trap 'rm -rf "$tmp"' EXIT
mkdir -p "$tmp/repo" "$tmp/out"
cp -r /repo/src /repo/cmake "$tmp/repo/"
(cd "$tmp/repo" && patch -p1 -s < "$patch") || { echo "PATCH-FAILED"; exit 3; }
VERIF_REPO="$tmp/repo" VERIF_OUT="$tmp/out" python3 "$(dirname "$0")/driver.py" "$prop" "$@" 2>"$tmp/err" | sed "s#$tmp/out#<scratch>#g" | cut -c1-220
grep "FAILED\|INFRA" "$tmp/err" | cut -c1-160
