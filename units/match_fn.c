/* unit match.fn: the twelve match functions of src/fetch.c against the reference predicates.
 * BOUNDED: path of at most MS_PLEN bytes, operands of at most MS_OLEN bytes, containsAllOf with at
 * most 2 operands; all 256 byte values symbolic.  libc functions: CBMC built-ins (strcmp, strncmp,
 * strlen) and the assumed models in stubs/libc_models.h. */
#include "common.h"
#include <stdlib.h>
#include "libc_models.h"
#include "match_spec.h"
#include "fetch.c"
#include "posix/jet_string.c"
#include "linux/jet_string.c"

#ifndef MS_PLEN
#define MS_PLEN 4
#define MS_OLEN 3
#endif

void h_match_fn(void)
{
	char path[MS_PLEN + 1], op0[MS_OLEN + 1], op1[MS_OLEN + 1];
	path[MS_PLEN] = 0; op0[MS_OLEN] = 0; op1[MS_OLEN] = 0;
	struct path_matcher *pm = malloc(sizeof(*pm) + sizeof(pm->path_elements));
	__CPROVER_assume(pm != NULL);
	pm->path_elements[0] = op0;
	pm->path_elements[1] = op1;
#ifdef MS_WHICH
	unsigned which = MS_WHICH; /* one unit per match function, solved in parallel */
#else
	unsigned which = nondet_uint();
	__CPROVER_assume(which < 12);
#endif
	bool ci = which >= 6;
	pm->number_of_path_elements = (which % 6 == 5) ? 1 + (nondet_bool() ? 1 : 0) : 1;
	const struct supported_matcher *m = &matchers[which % 6];
	match_func fn = ci ? m->case_insensitive : m->case_sensitive;
	int r = fn(pm, path);
	bool want;
	switch (which % 6) {
	case 0: want = ms_equals(path, op0, ci); break;
	case 1: want = ms_contains(path, op0, ci); break;
	case 2: want = ms_startswith(path, op0, ci); break;
	case 3: want = ms_endswith(path, op0, ci); break;
	case 4: want = !ms_equals(path, op0, ci); break;
	default: want = ms_contains(path, op0, ci) && (pm->number_of_path_elements < 2 || ms_contains(path, op1, ci)); break;
	}
	__CPROVER_assert((r != 0) == want, "C16.match.function-equals-reference-predicate");
	VERIF_COVER(r != 0 && op0[0] != 0 && path[2] != 0, "matches with a non-empty operand");
	VERIF_COVER(r == 0, "does not match");
}

/* the table rows are what the rule names promise */
void h_match_table(void)
{
	__CPROVER_assert(strcmp(matchers[0].matcher_name, "equals") == 0 && strcmp(matchers[1].matcher_name, "contains") == 0 &&
		strcmp(matchers[2].matcher_name, "startsWith") == 0 && strcmp(matchers[3].matcher_name, "endsWith") == 0 &&
		strcmp(matchers[4].matcher_name, "equalsNot") == 0 && strcmp(matchers[5].matcher_name, "containsAllOf") == 0 &&
		matchers[5].has_multiple_path_elements && !matchers[0].has_multiple_path_elements && !matchers[1].has_multiple_path_elements &&
		!matchers[2].has_multiple_path_elements && !matchers[3].has_multiple_path_elements && !matchers[4].has_multiple_path_elements,
		"C16.match.table-names");
	__CPROVER_assert(matchers[0].case_sensitive == equals_match && matchers[0].case_insensitive == equals_match_ignore_case &&
		matchers[1].case_sensitive == contains_match && matchers[1].case_insensitive == contains_match_ignore_case &&
		matchers[2].case_sensitive == startswith_match && matchers[2].case_insensitive == startswith_match_ignore_case &&
		matchers[3].case_sensitive == endswith_match && matchers[3].case_insensitive == endswith_match_ignore_case &&
		matchers[4].case_sensitive == equalsnot_match && matchers[4].case_insensitive == equalsnot_match_ignore_case &&
		matchers[5].case_sensitive == containsallof_match && matchers[5].case_insensitive == containsallof_match_ignore_case,
		"C16.match.table-functions");
	VERIF_COVER(1, "reached");
}
