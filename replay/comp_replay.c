/* Native replay for units comp.*: drives the real src/compression.c (with the real zlib of src/zlib) through its
 * public entry points under ASan/UBSan.
 *   comp_replay frag <len1> <len2> ...   a compressed binary message arrives in fragments of these sizes (arbitrary bytes)
 *   comp_replay send <len>               a message of <len> bytes is compressed for sending
 *   comp_replay msg <len> <byte>         an unfragmented compressed message of <len> bytes <byte> arrives (corrupt stream)
 * The replayer frees everything it allocates itself, so a LeakSanitizer report names memory cjet lost.
 * Exit 0 if the run completes without a sanitizer report and, for `send`, the result is a complete deflate block
 * that the peer inflates to the original message; 1 otherwise. */
#include <stdio.h>
#include <stdlib.h>
#include <string.h>
#include <stdarg.h>
#include <stdbool.h>
#include "websocket.h"
#include "compression.h"
#include "zlib.h"
void log_err(const char *f, ...) { va_list a; va_start(a, f); vfprintf(stderr, f, a); va_end(a); fputc('\n', stderr); }
void log_warn(const char *f, ...) { (void)f; }
void log_info(const char *f, ...) { (void)f; }
/* the destination capacity send_frame (src/websocket.c) gives websocket_compress: websocket_compress_bound(len) where the
 * tree has it, else the former 2*len */
size_t websocket_compress_bound(size_t length) __attribute__((weak));
#define COMP_DEST_SIZE(len) (websocket_compress_bound ? websocket_compress_bound(len) : ((len) * 2 ? (len) * 2 : 1))
static size_t got; static uint8_t *got_buf;
static enum websocket_callback_return on_frame(struct websocket *s, uint8_t *msg, size_t length, bool last) { (void)s; (void)last; free(got_buf); got_buf = malloc(length + 1); memcpy(got_buf, msg, length); got = length; return WS_OK; }
static enum websocket_callback_return on_msg(struct websocket *s, uint8_t *msg, size_t length) { return on_frame(s, msg, length, true); }
static z_stream defl; static z_stream *deflp = &defl;
static void init_ws(struct websocket *ws)
{
	memset(ws, 0, sizeof(*ws));
	ws->extension_compression.accepted = true;
	ws->extension_compression.compression_level = 2;
	ws->extension_compression.client_max_window_bits = 15;
	ws->extension_compression.server_max_window_bits = 15;
	ws->extension_compression.strm_comp = &deflp;
	alloc_compression(ws);
}
static int run(struct websocket *ws, int argc, char **argv);
int main(int argc, char **argv)
{
	struct websocket ws;
	if (argc < 3) return 2;
	init_ws(&ws);
	int rc = run(&ws, argc, argv);
	free_compression(&ws);
	free(got_buf);
	return rc;
}
static int run(struct websocket *wsp, int argc, char **argv)
{
#define ws (*wsp)
	if (strcmp(argv[1], "msg") == 0 && argc >= 4) {
		size_t len = strtoul(argv[2], NULL, 10);
		uint8_t *m = malloc(len ? len : 1);
		memset(m, (int)strtoul(argv[3], NULL, 0), len);
		enum websocket_callback_return r = binary_received_comp(true, &ws, m, len, on_msg);
		free(m);
		printf("message of %zu bytes: %d\n", len, (int)r);
		return 0;
	}
	if (strcmp(argv[1], "frag") == 0) {
		for (int i = 2; i < argc; i++) {
			size_t len = strtoul(argv[i], NULL, 10);
			uint8_t *frag = malloc(len ? len : 1);
			memset(frag, 0x55, len);
			enum websocket_callback_return r = binary_frame_received_comp(true, &ws, frag, len, i == argc - 1, on_frame);
			free(frag);
			printf("fragment %d (%zu bytes): %d\n", i - 1, len, (int)r);
			if (r != WS_OK) break;
		}
		return 0;
	}
	if (strcmp(argv[1], "send") == 0) {
		size_t len = strtoul(argv[2], NULL, 10);
		uint8_t *src = malloc(len ? len : 1), *dst = malloc(COMP_DEST_SIZE(len));
		for (size_t i = 0; i < len; i++) src[i] = (uint8_t)(i * 37u + 11u);
		int n = websocket_compress(&ws, dst, src, len);
		printf("compressed %zu bytes into %d\n", len, n);
		int rc = 0;
		if (n < 0) rc = 1;
		else {
			enum websocket_callback_return r = binary_received_comp(true, &ws, dst, (size_t)n, on_msg);
			if (r != WS_OK || got != len || memcmp(got_buf, src, len) != 0) { printf("REPRODUCED round trip failed (r=%d, got %zu bytes)\n", (int)r, got); rc = 1; }
			else printf("round trip ok\n");
		}
		free(src); free(dst);
		return rc;
	}
	return 2;
}
