/* units resp.*: src/response.c (property C02: the response carries the request's id and exactly one of
 * result / error).  JSON library: the executable model stubs/cjson_model.h. */
#include "common.h"
#include "log_stub.h"
#include "cjson_model.h"
#include "response.c"

void log_peer_err(const struct peer *p, const char *fmt, ...) { (void)p; (void)fmt; }

#ifndef RESP_FAIL
#define RESP_FAIL 0
#endif

/* an arbitrary id node of any JSON type; strings of at most 3 characters */
static void arbitrary_id(cJSON *id, char *buf)
{
	cJSON any;
	*id = any;
	id->next = id->prev = id->child = NULL;
	id->string = NULL;
	buf[3] = 0;
	id->valuestring = buf;
	int t = nondet_int();
	__CPROVER_assume(t == cJSON_String || t == cJSON_Number || t == cJSON_True || t == cJSON_False || t == cJSON_NULL || t == cJSON_Object || t == cJSON_Array);
	id->type = t;
	if (t == cJSON_Number) {
		/* what the parser stores for a JSON number: valueint is the saturated integer part */
		double d = id->valuedouble;
		__CPROVER_assume(d == d && d >= -1e300 && d <= 1e300);
		id->valueint = d >= INT_MAX ? INT_MAX : (d <= (double)INT_MIN ? INT_MIN : (int)d);
	}
}

static bool id_equal(const cJSON *a, const cJSON *b)
{
	if (a == NULL || b == NULL || a->type != b->type) return false;
	if (a->type == cJSON_String) return strcmp(a->valuestring, b->valuestring) == 0;
	return a->valuedouble == b->valuedouble;
}

static int count_members(const cJSON *o, const char *name)
{
	int n = 0;
	for (const cJSON *c = o->child; c != NULL; c = c->next) if (c->string != NULL && strcmp(c->string, name) == 0) n++;
	return n;
}

void h_resp_error(void)
{
	struct peer p;
	cJSON id; char idbuf[4];
	arbitrary_id(&id, idbuf);
	verif_cj_may_fail = RESP_FAIL;
	int code = nondet_int();
	bool with_data = nondet_bool();
	cJSON *r = create_error_response(&p, &id, code, with_data ? "reason" : NULL, with_data ? "why" : NULL);
	bool answerable = id.type == cJSON_String || id.type == cJSON_Number;
	if (!answerable) __CPROVER_assert(r == NULL, "C02.resp.no-response-for-ids-that-are-neither-string-nor-number");
	if (answerable && !RESP_FAIL) __CPROVER_assert(r != NULL, "C02.resp.error-response-built");
	if (r != NULL) {
		__CPROVER_assert(r->type == cJSON_Object && count_members(r, "id") == 1 && id_equal(cJSON_GetObjectItem(r, "id"), &id), "C02.resp.error-response-carries-equal-id");
		__CPROVER_assert(count_members(r, "error") == 1 && count_members(r, "result") == 0, "C02.resp.error-response-has-exactly-error");
		const cJSON *e = cJSON_GetObjectItem(r, "error");
		const cJSON *c = e ? cJSON_GetObjectItem(e, "code") : NULL;
		__CPROVER_assert(e != NULL && e->type == cJSON_Object && c != NULL && c->type == cJSON_Number && c->valuedouble == (double)code, "C02.resp.error-code-reported");
		cJSON_Delete(r);
	}
	__CPROVER_assert(verif_cj_live_nodes == 0, "C02.resp.no-json-node-left-behind");
	__CPROVER_assert(verif_cj_live_nodes == 0, "C15.resp.allocation-failure-leaks-nothing");
	VERIF_COVER(r != NULL && id.type == cJSON_Number, "numeric id answered");
	VERIF_COVER(r != NULL && id.type == cJSON_String && idbuf[0] != 0, "string id answered");
	VERIF_COVER(!answerable, "unanswerable id type");
}

void h_resp_result(void)
{
	struct peer p;
	cJSON id; char idbuf[4];
	arbitrary_id(&id, idbuf);
	cJSON *result = cJSON_CreateTrue();
	__CPROVER_assume(result != NULL);
	verif_cj_may_fail = RESP_FAIL;
	bool is_error = nondet_bool();
	cJSON *r = create_result_response(&p, &id, result, is_error ? "error" : "result");
	bool answerable = id.type == cJSON_String || id.type == cJSON_Number;
	if (!answerable) __CPROVER_assert(r == NULL, "C02.resp.no-response-for-ids-that-are-neither-string-nor-number");
	if (answerable && !RESP_FAIL) __CPROVER_assert(r != NULL, "C02.resp.result-response-built");
	if (r != NULL) {
		__CPROVER_assert(r->type == cJSON_Object && count_members(r, "id") == 1 && id_equal(cJSON_GetObjectItem(r, "id"), &id), "C02.resp.result-response-carries-equal-id");
		__CPROVER_assert(count_members(r, "error") + count_members(r, "result") == 1 && cJSON_GetObjectItem(r, is_error ? "error" : "result") == result, "C02.resp.result-response-has-exactly-one-payload-the-given-one");
		cJSON_Delete(r);
	}
	__CPROVER_assert(verif_cj_live_nodes == 0, "C02.resp.result-owned-exactly-once");
	__CPROVER_assert(verif_cj_live_nodes == 0, "C15.resp.result-released-on-every-failure");
	if (r != NULL) (void)0;
	VERIF_COVER(r != NULL && id.type == cJSON_Number && id.valuedouble == 7.0, "numeric id 7 answered");
	VERIF_COVER(r == NULL, "no response");
}

void h_resp_from_request(void)
{
	struct peer p;
	cJSON id; char idbuf[4];
	arbitrary_id(&id, idbuf);
	cJSON request; cJSON any; request = any;
	request.type = cJSON_Object; request.next = request.prev = NULL; request.string = NULL; request.valuestring = NULL;
	bool has_id = nondet_bool();
	char idname[3] = "id";
	id.string = idname;
	request.child = has_id ? &id : NULL;
	bool err = nondet_bool();
	cJSON *r = err ? create_error_response_from_request(&p, &request, INVALID_PARAMS, "reason", "x") : create_success_response_from_request(&p, &request);
	if (!has_id) __CPROVER_assert(r == NULL, "C02.resp.notification-gets-no-response");
	if (r != NULL) {
		__CPROVER_assert(id_equal(cJSON_GetObjectItem(r, "id"), &id), "C02.resp.from-request-carries-equal-id");
		cJSON_Delete(r);
	}
	__CPROVER_assert(verif_cj_live_nodes == 0, "C02.resp.from-request-no-json-node-left-behind");
	VERIF_COVER(r != NULL && !err, "success response");
	VERIF_COVER(!has_id, "notification");
}
