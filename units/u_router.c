/* units rt.*: src/router.c (properties C03, C14, C07, C05): reply, timeout, owner shutdown, bystander
 * disconnect, set-up.  The routing table is the REAL DECLARE_HASHTABLE_STRING(route_table, ...) instance of
 * router.c at CONFIG_ROUTING_TABLE_ORDER = 2 (4 slots; the table's own correctness is C17) with the integer
 * hash interposed by an uninterpreted function; responses are built by the real response.c over the cJSON
 * model; timers, allocator and peers' send functions are recording stubs. */
#include "common.h"
#include <stdarg.h>
#include <stdio.h>
#include <stdlib.h>
#include <string.h>
#include "log_stub.h"
#ifndef CJ_DEPTH
#define CJ_DEPTH 1   /* stub responses: a childless object, or an object owning one leaf payload (rt.message: 2) */
#endif
#include "cjson_model.h"

#include "generated/cjet_config.h"
#include "hashtable.h"
/* The routing table is abstracted by its finite-map contract (property C17) while keeping the slot array
 * router.c sweeps over: an entry may sit in ANY free slot (nondeterministic placement, so every slot incl. the
 * last one is exercised), lookups compare key strings, an insertion may be refused (table full). */
#undef HASHTABLE_PUT
#undef HASHTABLE_GET
#undef HASHTABLE_REMOVE
#define HASHTABLE_PUT(name, table, key, value, prev_value) verif_rt_put((table), (key), (value).vals[0])
#define HASHTABLE_GET(name, table, key, value) verif_rt_get((table), (key), &(value)->vals[0])
#define HASHTABLE_REMOVE(name, table, key, value) verif_rt_remove((table), (key), (void **)(value))
#define VERIF_RT_N (1u << CONFIG_ROUTING_TABLE_ORDER)
struct verif_rt_slot { uint32_t hop_info; const char *key; void *val; };   /* layout of struct hashtable_string with one value */
static bool verif_rt_refuse;
static int verif_rt_put(void *table, const char *key, void *val)
{
	struct verif_rt_slot *t = table;
	for (unsigned i = 0; i < VERIF_RT_N; i++) if (t[i].key != (const char *)HASHTABLE_INVALIDENTRY && strcmp(t[i].key, key) == 0) { t[i].val = val; return HASHTABLE_SUCCESS; }
	if (verif_rt_refuse) return HASHTABLE_FULL;
	unsigned s = nondet_uint();
	__CPROVER_assume(s < VERIF_RT_N);
	if (t[s].key != (const char *)HASHTABLE_INVALIDENTRY) return HASHTABLE_FULL;
	t[s].key = key; t[s].val = val;
	return HASHTABLE_SUCCESS;
}
static int verif_rt_get(void *table, const char *key, void **val)
{
	struct verif_rt_slot *t = table;
	for (unsigned i = 0; i < VERIF_RT_N; i++) if (t[i].key != (const char *)HASHTABLE_INVALIDENTRY && strcmp(t[i].key, key) == 0) { *val = t[i].val; return HASHTABLE_SUCCESS; }
	return HASHTABLE_INVALIDENTRY;
}
static int verif_rt_remove(void *table, const char *key, void **val)
{
	struct verif_rt_slot *t = table;
	for (unsigned i = 0; i < VERIF_RT_N; i++) if (t[i].key != (const char *)HASHTABLE_INVALIDENTRY && strcmp(t[i].key, key) == 0) {
		if (val != NULL) *val = t[i].val;
		t[i].key = (const char *)HASHTABLE_INVALIDENTRY; t[i].val = NULL;
		return HASHTABLE_SUCCESS;
	}
	return HASHTABLE_INVALIDENTRY;
}

/* snprintf stub: records the counter argument of the routed-id formats "%x_%p" / "%s_%x_%p"; writes "r" */
static unsigned verif_fmt_calls; static unsigned verif_fmt_uuid[4]; static const void *verif_fmt_addr[4];
int snprintf(char *str, size_t size, const char *fmt, ...)
{
	va_list ap;
	va_start(ap, fmt);
	if (fmt[1] == 's') (void)va_arg(ap, const char *);
	unsigned u = va_arg(ap, unsigned);
	const void *a = va_arg(ap, const void *);
	va_end(ap);
	if (str != NULL) {
		if (verif_fmt_calls < 4) { verif_fmt_uuid[verif_fmt_calls] = u; verif_fmt_addr[verif_fmt_calls] = a; }
		verif_fmt_calls++;
		if (size > 0) str[0] = (size > 1) ? 'r' : 0;
		if (size > 1) str[1] = 0;
	}
	return 2;
}
/* response builders: recording stubs (their id/payload behaviour is proved in resp.*): the object they return
 * remembers which id it answers, whether it is an error, and owns the payload */
#include "response.h"
#define RESP_MAX 3
static unsigned verif_resp_n; static cJSON *verif_resp_obj[RESP_MAX]; static const cJSON *verif_resp_id[RESP_MAX]; static bool verif_resp_is_error[RESP_MAX]; static int verif_resp_code[RESP_MAX]; static int verif_resp_payload_type[RESP_MAX];
static cJSON *record_response(const cJSON *id, bool is_error, int code, cJSON *payload)
{
	cJSON *r = cJSON_CreateObject();
	if (r == NULL) { if (payload) cJSON_Delete(payload); return NULL; }
	if (verif_resp_n < RESP_MAX) { unsigned k = verif_resp_n; verif_resp_obj[k] = r; verif_resp_id[k] = id; verif_resp_is_error[k] = is_error; verif_resp_code[k] = code; verif_resp_payload_type[k] = payload ? payload->type : -1; }
	verif_resp_n++;
	if (payload) { r->child = payload; payload->prev = payload; payload->next = NULL; }
	return r;
}
cJSON *create_error_response(const struct peer *p, const cJSON *id, int code, const char *tag, const char *reason) { (void)p; (void)tag; (void)reason; return record_response(id, true, code, NULL); }
cJSON *create_result_response(const struct peer *p, const cJSON *id, cJSON *result, const char *result_type) { (void)p; return record_response(id, strcmp(result_type, "error") == 0, 0, result); }
cJSON *create_error_response_from_request(const struct peer *p, const cJSON *request, int code, const char *tag, const char *reason) { (void)p; (void)request; (void)code; (void)tag; (void)reason; return NULL; }
#include "router.c"

/* ---- environment ------------------------------------------------------------------------------------------ */
void log_peer_err(const struct peer *p, const char *fmt, ...) { (void)p; (void)fmt; }
static bool verif_malloc_may_fail;
void *cjet_malloc(size_t n) { if (verif_malloc_may_fail && nondet_bool()) return NULL; return malloc(n); }
static unsigned verif_freed_rr; static void *verif_freed_ptr[4];
#define NREQ 2
static struct routing_request *verif_rq[NREQ];
void cjet_free(void *p)
{
	for (unsigned i = 0; i < NREQ; i++) if (p == verif_rq[i] && p != NULL) { if (verif_freed_rr < 4) verif_freed_ptr[verif_freed_rr] = p; verif_freed_rr++; }
	free(p);
}
static unsigned verif_destroyed[NREQ], verif_cancelled[NREQ]; static int verif_cancel_ret;
static unsigned rq_index(const struct cjet_timer *t) { for (unsigned i = 0; i < NREQ; i++) if (verif_rq[i] != NULL && t == &verif_rq[i]->timer) return i; return NREQ; }
void cjet_timer_destroy(struct cjet_timer *timer) { unsigned i = rq_index(timer); __CPROVER_assert(i < NREQ, "C07.rt.destroyed-timer-belongs-to-a-live-record"); if (i < NREQ) verif_destroyed[i]++; }
static int stub_cancel(void *this_ptr) { unsigned i = rq_index(this_ptr); __CPROVER_assert(i < NREQ, "C07.rt.cancelled-timer-belongs-to-a-live-record"); if (i < NREQ) verif_cancelled[i]++; return verif_cancel_ret; }
static unsigned verif_started; static uint64_t verif_started_ns; static int verif_start_ret; static timer_handler verif_started_handler; static void *verif_started_ctx;
static int stub_start(void *this_ptr, uint64_t ns, timer_handler h, void *ctx) { (void)this_ptr; verif_started++; verif_started_ns = ns; verif_started_handler = h; verif_started_ctx = ctx; return verif_start_ret; }
static unsigned verif_timer_inits; static int verif_timer_init_ret;
int cjet_timer_init(struct cjet_timer *timer, struct eventloop *loop) { (void)loop; verif_timer_inits++; timer->start = stub_start; timer->cancel = stub_cancel; return verif_timer_init_ret; }
static unsigned verif_to_calls; static uint64_t verif_to_ret; static const cJSON *verif_to_arg; static uint64_t verif_to_default;
uint64_t get_timeout_in_nsec(const struct peer *p, const cJSON *request, const cJSON *timeout, cJSON **response, uint64_t default_timeout)
{
	(void)p; (void)request;
	verif_to_calls++; verif_to_arg = timeout; verif_to_default = default_timeout;
	if (timeout == NULL) return default_timeout;
	if (verif_to_ret == 0) *response = cJSON_CreateObject();
	return verif_to_ret;
}

/* three peers: the owner and two callers; every send is recorded together with what was rendered */
static struct peer verif_owner, verif_c1, verif_c2;
#define SEND_MAX 3
static unsigned verif_sends; static const struct peer *verif_send_to[SEND_MAX];
static const cJSON *verif_msg_id[SEND_MAX]; static bool verif_msg_is_error[SEND_MAX]; static int verif_msg_payload_type[SEND_MAX]; static int verif_msg_code[SEND_MAX];
static int verif_send_ret;
static int stub_send(const struct peer *p, char *rendered, size_t len)
{
	(void)rendered; (void)len;
	if (verif_sends < SEND_MAX) {
		unsigned k = verif_sends;
		verif_send_to[k] = p;
		verif_msg_id[k] = NULL;
		for (unsigned j = 0; j < verif_resp_n && j < RESP_MAX; j++)
			if (verif_resp_obj[j] == verif_cj_last_printed) { verif_msg_id[k] = verif_resp_id[j]; verif_msg_is_error[k] = verif_resp_is_error[j]; verif_msg_payload_type[k] = verif_resp_payload_type[j]; verif_msg_code[k] = verif_resp_code[j]; }
	}
	verif_sends++;
	return verif_send_ret;
}

/* in-flight requests: request i has routed id verif_rid[i], requester c1 or c2, an optional original id */
static char verif_rid[NREQ][2];
static bool verif_has_oid[NREQ];
static unsigned verif_n;

static void world(void)
{
	verif_owner.send_message = stub_send; verif_c1.send_message = stub_send; verif_c2.send_message = stub_send;
	int r = add_routing_table(&verif_owner);
	__CPROVER_assume(r == 0);
#ifdef RT_SHAPE
	verif_n = (RT_SHAPE) & 3;   /* one unit per shape (number of in-flight requests, their callers) */
#else
	verif_n = nondet_uint();
	__CPROVER_assume(verif_n <= NREQ);
#endif
	verif_rid[0][0] = 'a'; verif_rid[0][1] = 0; verif_rid[1][0] = 'b'; verif_rid[1][1] = 0;
	for (unsigned i = 0; i < NREQ; i++) {
		verif_rq[i] = NULL;
		if (i >= verif_n) continue;
		struct routing_request *q = malloc(sizeof(*q) + 2);
		__CPROVER_assume(q != NULL);
		q->id[0] = verif_rid[i][0]; q->id[1] = 0;
		q->owner_peer = &verif_owner;
#ifdef RT_SHAPE
		q->requesting_peer = (((RT_SHAPE) >> (2 + i)) & 1) ? &verif_c2 : &verif_c1;
#else
		q->requesting_peer = nondet_bool() ? &verif_c1 : &verif_c2;
#endif
		verif_has_oid[i] = nondet_bool();
		q->origin_request_id = NULL;
		if (verif_has_oid[i]) { q->origin_request_id = cJSON_CreateTrue(); __CPROVER_assume(q->origin_request_id != NULL); }
		q->timer.start = stub_start; q->timer.cancel = stub_cancel;
		verif_rq[i] = q;
		struct value_route_table val; val.vals[0] = q;
		int pr = HASHTABLE_PUT(route_table, verif_owner.routing_table, q->id, val, NULL);
		__CPROVER_assume(pr == HASHTABLE_SUCCESS);
	}
	verif_send_ret = nondet_bool() ? 0 : -1;
	verif_cancel_ret = nondet_bool() ? 0 : -1;
}
static bool in_table(unsigned i)
{
	struct value_route_table v;
	return HASHTABLE_GET(route_table, verif_owner.routing_table, verif_rid[i], &v) == HASHTABLE_SUCCESS && v.vals[0] == verif_rq[i];
}
static bool was_freed(unsigned i) { for (unsigned k = 0; k < verif_freed_rr && k < 4; k++) if (verif_freed_ptr[k] == verif_rq[i]) return true; return false; }
static void release(void)
{
	for (unsigned i = 0; i < verif_n; i++) if (!was_freed(i)) { cJSON_Delete(verif_rq[i]->origin_request_id); free(verif_rq[i]); }
	delete_routing_table(&verif_owner);
}
/* message k is the final answer for request i: goes to its requester only, carries the original id */
#define ANSWER_FOR(k, i, is_error) (verif_send_to[k] == verif_rq_req[i] && verif_msg_id[k] != NULL && verif_msg_id[k] == verif_rq_oid[i] && verif_msg_is_error[k] == (is_error))
static const struct peer *verif_rq_req[NREQ]; static const cJSON *verif_rq_oid[NREQ];
static void remember(void) { for (unsigned i = 0; i < NREQ; i++) { verif_rq_req[i] = verif_rq[i] ? verif_rq[i]->requesting_peer : NULL; verif_rq_oid[i] = verif_rq[i] ? verif_rq[i]->origin_request_id : NULL; } }

/* ---- rt.reply: the owner answers ------------------------------------------------------------------------------ */
void h_rt_reply(void)
{
	world(); remember();
	cJSON json_rpc, idn, payload;
	char idbuf[2]; idbuf[0] = (char)nondet_u8(); idbuf[1] = 0;
	__CPROVER_assume(idbuf[0] == 'a' || idbuf[0] == 'b' || idbuf[0] == 'c');
	bool has_id = nondet_bool();
	idn.type = nondet_bool() ? cJSON_String : cJSON_Number; idn.valuestring = idbuf; idn.string = "id"; idn.next = NULL; idn.child = NULL; idn.valuedouble = 1; idn.valueint = 1;
	json_rpc.type = cJSON_Object; json_rpc.child = has_id ? &idn : NULL; json_rpc.next = NULL; json_rpc.string = NULL; json_rpc.valuestring = NULL;
	payload.type = nondet_bool() ? cJSON_Number : cJSON_True; payload.child = NULL; payload.next = NULL; payload.string = NULL; payload.valuestring = NULL; payload.valuedouble = 3; payload.valueint = 3;
	bool is_error = nondet_bool();
	/* the reply arrives on some peer's connection: the owner, or a caller forging an id */
	struct peer *from = nondet_bool() ? &verif_owner : &verif_c1;
	if (from == &verif_c1) { int r = add_routing_table(&verif_c1); __CPROVER_assume(r == 0); }
#ifdef RT_ALLOC_FAIL
	verif_cj_may_fail = true;   /* C15: every JSON allocation of the handler (copy of the reply, response object, rendering) may fail */
#endif
	int r = handle_routing_response(&json_rpc, &payload, is_error ? "error" : "result", from);
#ifdef RT_ALLOC_FAIL
	verif_cj_may_fail = false;
#endif
	unsigned hit = NREQ;
	if (has_id && idn.type == cJSON_String && from == &verif_owner) for (unsigned i = 0; i < verif_n; i++) if (verif_rid[i][0] == idbuf[0]) hit = i;
	for (unsigned i = 0; i < verif_n; i++) {
		if (i == hit) {
			__CPROVER_assert(!in_table(i) && was_freed(i) && verif_freed_rr == 1, "C03.reply.matched-request-leaves-the-table-and-is-released-once");
			__CPROVER_assert(verif_cancelled[i] == 1 && verif_destroyed[i] == 1, "C07.reply.timer-cancelled-and-destroyed-once");
		} else {
			__CPROVER_assert(in_table(i) && !was_freed(i) && verif_cancelled[i] == 0 && verif_destroyed[i] == 0, "C03.reply.other-requests-untouched");
		}
	}
	if (hit < NREQ && verif_has_oid[hit]) {
#ifdef RT_ALLOC_FAIL
		/* under allocation failure the answer may be lost, but never doubled or mis-addressed (C15: at most one response) */
		__CPROVER_assert(verif_sends == 0 || (verif_sends == 1 && ANSWER_FOR(0, hit, is_error) && verif_msg_payload_type[0] == payload.type), "C15.reply.at-most-one-answer-with-its-id-and-the-owners-payload");
#else
		__CPROVER_assert(verif_sends == 1 && ANSWER_FOR(0, hit, is_error) && verif_msg_payload_type[0] == payload.type, "C03.reply.caller-gets-exactly-one-answer-with-its-id-and-the-owners-payload");
#endif
	} else {
		__CPROVER_assert(verif_sends == 0, "C03.reply.unknown-forged-or-idless-requests-produce-no-message");
	}
	__CPROVER_assert(hit < NREQ || verif_freed_rr == 0, "C03.reply.unmatched-reply-has-no-effect");
#ifndef RT_ALLOC_FAIL
	/* the owner's reply is consumed successfully even if forwarding it to the caller fails: a failing caller must not make the
	 * daemon reject the owner's message (parse_message would fail and the owner's connection be closed) */
	__CPROVER_assert(!(has_id && idn.type == cJSON_String) || r == 0, "C11.reply.callers-failing-connection-does-not-fail-the-owners-message");
#endif
	(void)r;
	if (from == &verif_c1) delete_routing_table(&verif_c1);
	release();
	__CPROVER_assert(verif_cj_live_nodes == 0, "C03.reply.no-json-node-left-behind");
#ifdef RT_ALLOC_FAIL
	VERIF_COVER(hit < NREQ && verif_has_oid[hit] && verif_sends == 0, "answer lost to an allocation failure");
#endif
	VERIF_COVER(hit == verif_n - 1 && verif_has_oid[hit], "last request answered");
	VERIF_COVER(hit == NREQ && has_id && idn.type == cJSON_String && from == &verif_owner, "unknown id");
	VERIF_COVER(from == &verif_c1 && has_id && idn.type == cJSON_String && idbuf[0] == 'a' && verif_n >= 1, "forged id from a peer that does not own the element");
	VERIF_COVER(hit < NREQ && !verif_has_oid[hit], "request without id answered by the owner");
}

/* ---- rt.timeout: the deadline passes ---------------------------------------------------------------------------- */
void h_rt_timeout(void)
{
	world(); remember();
	__CPROVER_assume(verif_n >= 1);
	unsigned t = nondet_uint();
	__CPROVER_assume(t < verif_n);
	bool cancelled = nondet_bool();
	request_timeout_handler(verif_rq[t], cancelled);
	if (cancelled) {
		__CPROVER_assert(verif_sends == 0 && verif_freed_rr == 0 && in_table(t), "C14.timeout.cancelled-timer-does-nothing");
	} else {
		__CPROVER_assert(!in_table(t) && was_freed(t) && verif_freed_rr == 1 && verif_destroyed[t] == 1, "C14.timeout.expired-request-removed-released-timer-destroyed-once");
		if (verif_has_oid[t])
			__CPROVER_assert(verif_sends == 1 && ANSWER_FOR(0, t, true), "C14.timeout.caller-gets-exactly-one-timeout-error-with-its-id");
		else
			__CPROVER_assert(verif_sends == 0, "C14.timeout.idless-request-gets-nothing");
		for (unsigned i = 0; i < verif_n; i++) if (i != t) __CPROVER_assert(in_table(i) && !was_freed(i) && verif_destroyed[i] == 0, "C14.timeout.other-requests-untouched");
	}
	release();
	__CPROVER_assert(verif_cj_live_nodes == 0, "C14.timeout.no-json-node-left-behind");
	VERIF_COVER(!cancelled && verif_has_oid[t], "timeout answered");
	VERIF_COVER(cancelled, "cancelled");
}

/* ---- rt.cancel: a registered request is taken back (its forwarding failed and it is answered at once) ---------- */
void h_rt_cancel(void)
{
	world(); remember();
	__CPROVER_assume(verif_n >= 1);
	unsigned t = nondet_uint();
	__CPROVER_assume(t < verif_n);
	cancel_routing_request(&verif_owner, verif_rq[t]);
	/* the record itself stays with the caller (set_or_call releases it): gone from the table, timer stopped and destroyed, no message */
	__CPROVER_assert(!in_table(t) && !was_freed(t) && verif_cancelled[t] == 1 && verif_destroyed[t] == 1, "C02.cancel.request-leaves-the-table-timer-cancelled-and-destroyed-once");
	__CPROVER_assert(verif_sends == 0 && verif_freed_rr == 0, "C02.cancel.nobody-is-answered-and-nothing-is-released");
	for (unsigned i = 0; i < verif_n; i++) if (i != t) __CPROVER_assert(in_table(i) && !was_freed(i) && verif_cancelled[i] == 0 && verif_destroyed[i] == 0, "C03.cancel.other-requests-untouched");
	/* what set_or_call does next */
	cJSON_Delete(verif_rq[t]->origin_request_id); verif_rq[t]->origin_request_id = NULL;
	release();
	__CPROVER_assert(verif_cj_live_nodes == 0, "C02.cancel.no-json-node-left-behind");
	VERIF_COVER(t == 0, "first request cancelled");
}

/* ---- rt.ownerdown: the owner disconnects --------------------------------------------------------------------- */
void h_rt_ownerdown(void)
{
	world(); remember();
	remove_routing_info_from_peer(&verif_owner);
	unsigned expect_msgs = 0;
	for (unsigned i = 0; i < verif_n; i++) {
		__CPROVER_assert(!in_table(i) && was_freed(i), "C03.ownerdown.every-request-leaves-the-table-and-is-released");
		__CPROVER_assert(verif_cancelled[i] == 1, "C03.ownerdown.every-timer-cancelled");
		if (verif_has_oid[i]) expect_msgs++;
	}
	__CPROVER_assert(verif_freed_rr == verif_n && verif_sends == expect_msgs, "C03.ownerdown.each-caller-with-an-id-gets-exactly-one-shutdown-error");
	if (verif_n == 2 && verif_has_oid[0] && verif_has_oid[1])
		__CPROVER_assert((ANSWER_FOR(0, 0, true) && ANSWER_FOR(1, 1, true)) || (ANSWER_FOR(0, 1, true) && ANSWER_FOR(1, 0, true)), "C03.ownerdown.errors-carry-the-original-ids-to-their-callers");
	struct hashtable_string *tab = verif_owner.routing_table;
	for (unsigned s = 0; s < table_size_route_table; s++) __CPROVER_assert(tab[s].key == (char *)HASHTABLE_INVALIDENTRY, "C03.ownerdown.table-empty-afterwards");
	for (unsigned i = 0; i < verif_n; i++) __CPROVER_assert(verif_destroyed[i] == 1, "C07.ownerdown.every-timer-destroyed");
	release();
	VERIF_COVER(verif_sends == verif_n, "every caller told");
	VERIF_COVER(verif_sends + 1 == verif_n, "one caller without id");
}

/* ---- rt.bystander: a caller disconnects; another caller's request to the same owner must survive ---------- */
void h_rt_bystander(void)
{
	world(); remember();
	struct peer *leaving = nondet_bool() ? &verif_c1 : &verif_c2;
	remove_peer_from_routing_table(&verif_owner, leaving);
	for (unsigned i = 0; i < verif_n; i++) {
		if (verif_rq_req[i] == leaving) {
			__CPROVER_assert(!in_table(i) && was_freed(i) && verif_cancelled[i] == 1, "C05.leave.own-in-flight-requests-dropped");
			__CPROVER_assert(verif_destroyed[i] == 1, "C07.leave.timer-of-a-dropped-request-destroyed");
		} else {
			__CPROVER_assert(in_table(i) && !was_freed(i) && verif_cancelled[i] == 0 && verif_destroyed[i] == 0, "C03.bystander.requests-of-other-callers-are-untouched");
		}
	}
	for (unsigned k = 0; k < verif_sends && k < SEND_MAX; k++) __CPROVER_assert(verif_send_to[k] == leaving, "C03.bystander.nothing-is-sent-to-other-peers");
	release();
	VERIF_COVER(verif_rq_req[0] == leaving, "a request of the leaving caller");
	VERIF_COVER(verif_rq_req[verif_n - 1] != leaving, "a request of a staying caller");
}

/* ---- rt.setup: arming a routed request --------------------------------------------------------------------------- */
void h_rt_setup(void)
{
	world(); remember();
	__CPROVER_assume(verif_n <= 1);
	struct element e; struct peer *own = &verif_owner; struct eventloop loop;
	e.peer = own; own->loop = &loop; e.timeout_nsec = 5000000000ull;
	struct routing_request *q = malloc(sizeof(*q) + 2);
	__CPROVER_assume(q != NULL);
	q->id[0] = nondet_bool() ? 'n' : 'a'; q->id[1] = 0; q->requesting_peer = &verif_c1; q->owner_peer = own; q->origin_request_id = NULL;
	verif_rq[1] = q; /* so that the timer stubs recognise the new record */
	cJSON request, timeout; request.type = cJSON_Object; request.child = NULL; request.next = NULL; request.string = NULL;
	timeout.type = cJSON_Number; timeout.valuedouble = 7;
	bool has_timeout = nondet_bool();
	verif_to_ret = nondet_bool() ? 0 : 7000000000ull;
	verif_timer_init_ret = nondet_bool() ? 0 : -1; verif_start_ret = nondet_bool() ? 0 : -1;
	verif_rt_refuse = nondet_bool();
	cJSON *response = NULL;
	int r = setup_routing_information(&e, &request, has_timeout ? &timeout : NULL, q, &response);
	struct value_route_table v;
	bool present = HASHTABLE_GET(route_table, own->routing_table, q->id, &v) == HASHTABLE_SUCCESS && v.vals[0] == q;
	if (r == 0) {
		__CPROVER_assert(present && verif_started == 1 && verif_started_ctx == q && verif_started_handler == request_timeout_handler, "C03.setup.accepted-request-is-registered-and-its-timer-armed");
		__CPROVER_assert(verif_started_ns == (has_timeout ? 7000000000ull : 5000000000ull) && verif_to_arg == (has_timeout ? &timeout : NULL) && verif_to_default == 5000000000ull, "C14.setup.deadline-is-the-requests-timeout-else-the-elements");
		__CPROVER_assert(response == NULL, "C03.setup.no-response-yet");
	} else {
		__CPROVER_assert(r == -1 && !present, "C03.setup.refused-request-is-not-registered");
		__CPROVER_assert(verif_started == 0 || verif_start_ret < 0, "C14.setup.refused-request-has-no-armed-timer");
		__CPROVER_assert(verif_started == 0 || verif_start_ret < 0, "C03.setup.refused-request-cannot-be-answered-a-second-time-by-its-timer");
		__CPROVER_assert(verif_timer_inits == 0 || verif_timer_init_ret < 0 || verif_destroyed[1] == 1, "C07.setup.timer-of-a-refused-request-is-destroyed");
	}
	if (present) verif_rt_remove(own->routing_table, q->id, NULL);
	if (response) cJSON_Delete(response);
	verif_rq[1] = NULL;
	free(q);
	release();
	VERIF_COVER(r == 0 && has_timeout, "armed with the request's timeout");
	VERIF_COVER(r == -1 && verif_timer_inits == 1 && verif_timer_init_ret == 0 && verif_started == 1, "timer start failed");
	VERIF_COVER(r == -1 && has_timeout && verif_to_ret == 0, "illegal timeout");
	VERIF_COVER(r == -1 && verif_timer_inits == 1 && verif_timer_init_ret == 0 && verif_rt_refuse && verif_start_ret == 0, "routing table full");
}

/* ---- rt.alloc: routed request ids are unique among the requests in flight --------------------------------
 * the id is formatted from (original id, a counter, the requester's address): two records allocated one after
 * the other must be formatted with different counter values, whatever mix of requests with and without an id */
void h_rt_alloc(void)
{
	cJSON oid; oid.type = cJSON_String; oid.valuestring = "x"; oid.string = NULL; oid.child = NULL; oid.next = NULL;
	bool id1 = nondet_bool(), id2 = nondet_bool();
	struct peer *req = &verif_c1;
#ifdef RT_ALLOC_FAIL
	/* C15: the record or the copy of the caller's id cannot be allocated: nothing is returned, nothing is left behind, nothing freed is touched */
	verif_malloc_may_fail = true; verif_cj_may_fail = true;
	struct routing_request *f = alloc_routing_request(req, &verif_owner, id1 ? &oid : NULL);
	verif_malloc_may_fail = false; verif_cj_may_fail = false;
	if (f != NULL) {
		__CPROVER_assert(f->requesting_peer == req && f->owner_peer == &verif_owner && (f->origin_request_id != NULL) == id1, "C15.alloc.record-complete-or-not-returned");
		cJSON_Delete(f->origin_request_id); free(f);
	}
	__CPROVER_assert(verif_cj_live_nodes == 0, "C15.alloc.no-node-left-behind");
	VERIF_COVER(f == NULL && id1, "allocation failed for a request with id");
	VERIF_COVER(f != NULL && id1, "record with id built");
	(void)id2;
#else
	struct routing_request *a = alloc_routing_request(req, &verif_owner, id1 ? &oid : NULL);
	struct routing_request *b = alloc_routing_request(req, &verif_owner, id2 ? &oid : NULL);
	__CPROVER_assume(a != NULL && b != NULL);
	__CPROVER_assert(verif_fmt_calls == 2 && verif_fmt_addr[0] == req && verif_fmt_addr[1] == req, "C03.alloc.id-names-the-requester");
	__CPROVER_assert(verif_fmt_uuid[0] != verif_fmt_uuid[1], "C03.alloc.consecutive-requests-get-different-counter-values");
	__CPROVER_assert(a->requesting_peer == req && a->owner_peer == &verif_owner && (a->origin_request_id != NULL) == id1 && (a->origin_request_id == NULL || a->origin_request_id != &oid), "C03.alloc.record-names-caller-owner-and-a-copy-of-the-original-id");
	cJSON_Delete(a->origin_request_id); cJSON_Delete(b->origin_request_id); free(a); free(b);
	VERIF_COVER(!id1 && !id2, "two requests without id");
	VERIF_COVER(id1 && !id2, "mixed");
#endif
}

/* ---- rt.message: create_routed_message under allocation failure (C15) -------------------------------------------
 * the message forwarded to the owner is complete ({id, method, params} resp. {id, method, params:{value}}) or it is not
 * built at all, and no JSON node is left behind - whichever of its allocations fail */
void h_rt_message(void)
{
	cJSON value; value.type = cJSON_Number; value.valuedouble = 7; value.valueint = 7; value.child = NULL; value.next = NULL; value.prev = NULL; value.string = NULL; value.valuestring = NULL;
	bool has_value = nondet_bool();
	enum type what = nondet_bool() ? STATE : METHOD;
	unsigned before = verif_cj_live_nodes;
	verif_cj_may_fail = true;
	cJSON *m = create_routed_message(&verif_c1, "pa", what, has_value ? &value : NULL, "id1");
	verif_cj_may_fail = false;
	if (m != NULL) {
		const cJSON *id = cJSON_GetObjectItem(m, "id"), *method = cJSON_GetObjectItem(m, "method"), *params = cJSON_GetObjectItem(m, "params");
		bool id_ok = id != NULL && id->type == cJSON_String && id->valuestring[0] == 'i' && id->valuestring[1] == 'd' && id->valuestring[2] == '1' && id->valuestring[3] == 0;
		bool method_ok = method != NULL && method->type == cJSON_String && method->valuestring[0] == 'p' && method->valuestring[1] == 'a' && method->valuestring[2] == 0;
		bool params_ok = params != NULL;
		if (params_ok && what == STATE) { const cJSON *v = cJSON_GetObjectItem(params, "value"); params_ok = v != NULL && (!has_value || (v->type == cJSON_Number && v->valuedouble == 7)); }
		if (params_ok && what == METHOD && has_value) params_ok = params->type == cJSON_Number && params->valuedouble == 7;
		__CPROVER_assert(id_ok && method_ok && params_ok, "C15.message.complete-or-nothing");
		cJSON_Delete(m);
	}
	__CPROVER_assert(verif_cj_live_nodes == before, "C15.message.no-node-left-behind");
	VERIF_COVER(m != NULL && what == STATE, "state message built");
	VERIF_COVER(m != NULL && what == METHOD && !has_value, "call without args built");
	VERIF_COVER(m == NULL, "refused under allocation failure");
}
