"""Registry of verification units.  See DESIGN.md section 2."""

CFGS = {
    "prod": {},
    "small8": {"CONFIG_MAX_MESSAGE_SIZE": 8, "CONFIG_MAX_WRITE_BUFFER_SIZE": 8},
    "small4": {"CONFIG_MAX_MESSAGE_SIZE": 4, "CONFIG_MAX_WRITE_BUFFER_SIZE": 4},
    "rt2": {"CONFIG_ROUTING_TABLE_ORDER": 2},
    "rt1": {"CONFIG_ROUTING_TABLE_ORDER": 1},
    "small16": {"CONFIG_MAX_MESSAGE_SIZE": 16, "CONFIG_MAX_WRITE_BUFFER_SIZE": 16},
}

TRUSTED_BASE = [
    "cbmc 6.11.0 (goto-cc, goto-instrument --dfcc contract instrumentation, symbolic execution, C semantics for x86_64 little-endian LP64)",
    "SAT back ends CaDiCaL / kissat / MiniSat (UNSAT answers)",
    "contracts and spec functions in /verif/contracts (the specification itself)",
]

PROPERTY_META = {}
CJ_UNWIND_LATE = ["cj_delete_0.0:6", "cj_delete_1.0:6", "cj_delete_2.0:5", "cj_delete_3.0:5", "cj_dup_0.0:4", "cj_dup_1.0:4", "cj_dup_2.0:4"]
CJ_ASSUME_LATE = ["cJSON: executable model stubs/cjson_model.h (assumed contract of the vendored library)"]
NOT_APPLICABLE = {}
NOTES = ("Every check rebuilds its verification units from /repo's working tree (wrapper TUs include the real "
         "source files; config headers are generated from /repo's templates). Exit 2 + INFRA-ERROR means undecided "
         "(tool failure / timeout / vacuity guard), never a violation. Known genuine defects are in known_findings.json.")
UNITS = []


U8_REPLAY = {"c": "replay/utf8_replay.c", "extract": "utf8_extract"}


def unit(name, props, src, **kw):
    d = {"name": name, "props": props, "src": src}
    d.update(kw)
    UNITS.append(d)
    return d


# ------------------------------------------------------------------------------------------
# C18 UTF-8 validator
# ------------------------------------------------------------------------------------------
PROPERTY_META["C18"] = {
    "level": "proof",
    "technique": "contract-based deductive verification with CBMC code contracts: __CPROVER_requires/ensures/assigns on the real functions and guarded in-source loop invariants/decreases with a ghost reference automaton, enforced function by function with goto-instrument --dfcc --enforce-contract / --replace-call-with-contract / --apply-loop-contracts",
    "level_text": ("Unbounded proof: the byte-wise state machine is proved equal to the RFC 3629 reference automaton for every "
                   "checker state and byte (loop-free); every sequence entry point (byte, text, 32/64-bit word fast paths) is proved "
                   "by loop contracts against a ghost automaton that reads the text through its own index, for every length up to "
                   "10^6 bytes and every content; the auto-aligned front end and an arbitrary two-way split are proved by chaining "
                   "the callee contracts, for every alignment class 0..7."),
    "level_note": ("Trusted: CBMC and its little-endian x86_64 memory model (the word fast paths are verified for little-endian "
                   "byte order only), SAT solver, the reference automaton in contracts/utf8.h (written from the RFC 3629 grammar). "
                   "Lengths above 10^6 bytes are outside the contracts' preconditions. 'Same verdict however split' is proved for one "
                   "split point per call chain (induction over more split points is by the same contract, outside the verifier). "
                   "The use on close-frame reasons in websocket.c is covered under C12."),
    "explanation": "C18: contracts on is_byte_valid, cjet_is_byte_sequence_valid, cjet_is_text_valid, cjet_is_word_sequence_valid, cjet_is_word64_sequence_valid, cjet_is_word_sequence_valid_auto_alligned, cjet_init_checker.",
    "not_decided": ["big-endian targets", "texts longer than 10^6 bytes"],
    "assumptions": ["little-endian byte order (x86_64)", "text length <= 1,000,000 bytes (precondition of the sequence contracts)"],
}
unit("utf8.step", ["C18"], "units/utf8_step.c", enforce="is_byte_valid",
     functions=["is_byte_valid"], min_obligations={"postcondition": 2},
     expect_tags=["C18.step.verdict", "C18.step.state-simulates"], replay=U8_REPLAY, timeout=120)
unit("utf8.bytes", ["C18"], "units/utf8_bytes.c", entry="h_utf8_bytes",
     enforce="cjet_is_byte_sequence_valid", replace=["is_byte_valid"], loop_contracts=True,
     functions=["cjet_is_byte_sequence_valid"],
     min_obligations={"postcondition": 4, "loop_invariant_step": 1, "loop_invariant_base": 1},
     expect_tags=["C18.bytes.verdict"], replay=U8_REPLAY, timeout=120)
unit("utf8.text", ["C18"], "units/utf8_bytes.c", entry="h_utf8_text",
     enforce="cjet_is_text_valid", replace=["is_byte_valid"], loop_contracts=True,
     functions=["cjet_is_text_valid"],
     min_obligations={"postcondition": 4, "loop_invariant_step": 1, "loop_invariant_base": 1},
     expect_tags=["C18.text.verdict"], replay=U8_REPLAY, timeout=120)
unit("utf8.word32", ["C18"], "units/utf8_bytes.c", entry="h_utf8_word32",
     enforce="cjet_is_word_sequence_valid", replace=["is_byte_valid"], loop_contracts=True,
     unwind_loops=[("cjet_is_word_sequence_valid", r"j < sizeof\(tmp\)", 5)],
     functions=["cjet_is_word_sequence_valid"],
     min_obligations={"postcondition": 4, "loop_invariant_step": 1, "loop_invariant_base": 1, "unwind": 1},
     expect_tags=["C18.word32.verdict"], replay=U8_REPLAY, timeout=300)
unit("utf8.word64", ["C18"], "units/utf8_bytes.c", entry="h_utf8_word64",
     enforce="cjet_is_word64_sequence_valid", replace=["is_byte_valid"], loop_contracts=True,
     unwind_loops=[("cjet_is_word64_sequence_valid", r"j < sizeof\(tmp\)", 9)],
     functions=["cjet_is_word64_sequence_valid"],
     min_obligations={"postcondition": 4, "loop_invariant_step": 1, "loop_invariant_base": 1, "unwind": 1},
     expect_tags=["C18.word64.verdict"], replay=U8_REPLAY, timeout=300)
unit("utf8.auto", ["C18"], "units/utf8_bytes.c", entry="h_utf8_auto",
     enforce="cjet_is_word_sequence_valid_auto_alligned",
     replace=["cjet_is_byte_sequence_valid", "cjet_is_word_sequence_valid", "cjet_is_word64_sequence_valid", "cjet_init_checker"],
     functions=["cjet_is_word_sequence_valid_auto_alligned"],
     min_obligations={"postcondition": 3, "precondition": 3},
     expect_tags=["C18.auto.verdict"], replay=U8_REPLAY, timeout=300)
unit("utf8.split", ["C18"], "units/utf8_bytes.c", entry="h_utf8_split",
     replace=["cjet_is_byte_sequence_valid", "cjet_init_checker"],
     functions=[], min_obligations={"precondition": 2},
     expect_tags=["C18.split.verdict-equals-whole-text-verdict"], timeout=300)
unit("utf8.init", ["C18"], "units/utf8_step.c", entry="h_utf8_init", enforce="cjet_init_checker",
     functions=["cjet_init_checker"], min_obligations={"postcondition": 1}, timeout=60)

# ------------------------------------------------------------------------------------------
# C17 hopscotch hash tables
# ------------------------------------------------------------------------------------------
HT_KINDS = {"u32": 1, "u64": 2}


def ht_units(order, kind, tier):
    sfx = "%s.o%d" % (kind, order)
    defs = ["HT_ORDER=%d" % order, "HT_KIND=%d" % HT_KINDS[kind]]
    common = dict(defines=defs, tier=tier, solver="kissat", unwind=33, kind="proof", shared_tags=True,
                  bound="table order %d (all loops have constant bounds <= 32, unwinding assertions on)" % order,
                  assumes=["hash functions replaced by an uninterpreted function into [0,2^order) (real ones: unit ht.hash)",
                           "contract enforced by hand-instrumented harness (assume PRE / assert POST), not by --dfcc (timeout)"])
    for op, fn, tags in (("get", "hashtable_get", ["C17.get.found-iff-present", "C17.get.returns-stored-value", "C17.get.table-unchanged"]),
                         ("remove", "hashtable_remove", ["C17.remove.success-iff-was-present", "C17.remove.returns-removed-value", "C17.remove.view-is-old-view-minus-key", "C17.remove.inv-preserved", "C17.remove.failure-changes-nothing"]),
                         ("put", "hashtable_put", ["C17.put.result", "C17.put.refused-only-when-no-slot-in-reach", "C17.put.view-is-old-view-plus-binding", "C17.put.reports-previous-value", "C17.put.inv-preserved"])):
        for i, tag in enumerate(tags):
            c2 = dict(common)
            c2["defines"] = defs + ["HT_ONLY=%d" % (i + 1)]
            if op == "put" and order <= 6:
                # add range 2^(order-1) <= hop range 32: displacement (find_closer_entry) must be unreachable;
                # its body is replaced by assert(false) so that reaching it fails an obligation
                c2["goto_instrument_args"] = ["--remove-function-body", "find_closer_entry_VT", "--generate-function-body", "find_closer_entry_VT",
                                              "--generate-function-body-options", "assert-false-assume-false"]
            unit("ht.%s.%s.%d" % (op, sfx, i + 1), ["C17", "C04", "C03", "C01"], "units/ht.c", entry="h_ht_" + op,
                 functions=["%s_<name> (order %d, %s keys)" % (fn, order, kind)], expect_tags=[tag], timeout=600, **c2)


def ht_closer_units(order, kind, f, tier):
    tags = ["C17.closer.no-candidate-changes-nothing", "C17.closer.gives-up-only-when-no-entry-can-move", "C17.closer.hole-moves-closer-to-the-home", "C17.closer.new-hole-is-unreferenced",
            "C17.closer.inv-A-preserved-at-an-arbitrary-bit", "C17.closer.inv-B-preserved-at-an-arbitrary-slot", "C17.closer.inv-C-preserved-at-an-arbitrary-pair",
            "C17.closer.every-entry-keeps-its-key-and-value", "C17.closer.no-entry-appears"]
    for i, tag in enumerate(tags):
        # obligation 7 (Inv-C at an arbitrary pair, wide window) has not finished in 40 min in any run: best effort (undecided, never a verdict, unless it fails)
        unit("ht.closer.%s.o%d.f%d.%d" % (kind, order, f, i + 1), ["C17"], "units/ht.c", entry="h_ht_closer", tier=tier, solver="cadical", unwind=64, kind="proof", best_effort=(i + 1 == 7),
             defines=["HT_ORDER=%d" % order, "HT_KIND=%d" % HT_KINDS[kind], "HT_F=%d" % f, "HT_ONLY=%d" % (i + 1)] + (["HT_WINDOW_WIDE=1"] if i + 1 in (4, 7) else []), shared_tags=True,
             bound="table order %d, free position %d (rotation symmetry: one position stands for all - assumption)" % (order, f),
             functions=["find_closer_entry_<name> (order %d, %s keys)" % (order, kind)], expect_tags=[tag], timeout=(600 if i + 1 == 7 else 2400), mem_gb=20, mem_budget_gb=13,
             assumes=["window-based invariant with ghost indices (universal generalisation)", "uninterpreted hash", "rotation symmetry of the table for the choice of the free position"])


def ht_putd_units(order, kind, c, tier):
    fx = ["C17.closer.fx.no-candidate-changes-nothing", "C17.closer.fx.gives-up-only-when-no-entry-can-move", "C17.closer.fx.moved-entry-lies-between-its-home-and-the-hole",
          "C17.closer.fx.bitmap-bit-moves-with-the-entry", "C17.closer.fx.hole-receives-the-entry", "C17.closer.fx.nothing-else-changes"]
    unit("ht.closer.fx.%s.o%d" % (kind, order), ["C17"], "units/ht.c", entry="h_ht_closer_fx", tier=tier, solver="cadical", unwind=129, kind="proof",
         defines=["HT_ORDER=%d" % order, "HT_KIND=%d" % HT_KINDS[kind], "HT_F=5"], shared_tags=True, expect_tags=fx, timeout=900, mem_gb=8, failure_is_infra=True,
         bound="table order %d, free position 5 (rotation symmetry), every table content" % order,
         functions=["find_closer_entry_<name> (order %d, %s keys): exact functional effect" % (order, kind)],
         assumes=["rotation symmetry of the table for the choice of the free position"])
    tags = ["C17.putd.refused-only-when-no-slot-in-reach-can-be-freed", "C17.putd.new-binding-is-reachable-from-its-home", "C17.putd.inv-A-at-an-arbitrary-bit",
            "C17.putd.inv-B-at-an-arbitrary-slot", "C17.putd.inv-C-at-an-arbitrary-pair", "C17.putd.every-other-binding-survives-with-its-value",
            "C17.putd.no-binding-appears", "C17.putd.reports-previous-value"]
    for moves in (1, 2):
        for i, tag in enumerate(tags):
            if moves == 2 and i + 1 not in (4, 6):
                continue
            # obligations 1 and 2 are discharged in 6-9 min; the Inv / view obligations did not finish in 100 min on the repaired tree (a
            # counterexample on the unrepaired tree took 10 min): best effort - a failed obligation still is a violation, a timeout is "undecided"
            firm = moves == 1 and i + 1 in (1, 2)
            unit("ht.putd.%s.o%d.c%d.m%d.%d" % (kind, order, c, moves, i + 1), ["C17"], "units/ht.c", entry="h_ht_putd", tier=tier, solver="cadical", unwind=129, kind="bounded",
                 cbmc_unwindset=["hashtable_put_VT.0:34", "hashtable_put_VT.1:66", "hashtable_put_VT.2:%d" % (moves + 2)], best_effort=not firm,
                 defines=["HT_ORDER=%d" % order, "HT_KIND=%d" % HT_KINDS[kind], "HT_PIN_HOME=%d" % c, "HT_STUB_CLOSER=1", "HT_MAXMOVES=%d" % moves, "HT_ONLY=%d" % (i + 1)], shared_tags=True,
                 bound="table order %d, home %d (rotation symmetry), at most %d displacement step(s) per insertion" % (order, c, moves),
                 functions=["hashtable_put_<name> (order %d, %s keys) incl. the displacement loop; find_closer_entry replaced by its contract (ht.closer.fx)" % (order, kind)],
                 expect_tags=[tag], timeout=300, mem_gb=12, mem_budget_gb=8,
                 assumes=["find_closer_entry replaced by its functional contract (any movable candidate), proved by ht.closer.fx", "hash = arbitrary table over the occurring keys (pairwise consistent), home of the inserted key pinned",
                          "Inv assumed as instances (all A; B and C over the add range and ghost slots), re-established at arbitrary ghost indices",
                          "rotation symmetry of the table for the choice of the home position"])


ht_closer_units(7, "u32", 5, "thorough")
ht_putd_units(7, "u32", 100, "thorough")
ht_units(2, "u32", "quick")
ht_units(3, "u32", "quick")

# ------------------------------------------------------------------------------------------
# C16 fetch matchers
# ------------------------------------------------------------------------------------------
MATCH_FNS = ["equals_match", "contains_match", "startswith_match", "endswith_match", "equalsnot_match", "containsallof_match"]
for _w in range(12):
    _fn = MATCH_FNS[_w % 6] + ("_ignore_case" if _w >= 6 else "")
    unit("match.fn.%s" % _fn, ["C16", "C01"], "units/match_fn.c", entry="h_match_fn", kind="bounded", shared_tags=True,
         bound="path <= 4 bytes, operands <= 3 bytes, containsAllOf <= 2 operands, all byte values (thorough: 6/4)",
         unwind=8, defines=["MS_WHICH=%d" % _w], defines_thorough=["MS_PLEN=6", "MS_OLEN=4"], unwind_thorough=10, functions=[_fn],
         expect_tags=["C16.match.function-equals-reference-predicate"], timeout=300, solver="cadical",
         assumes=["libc: CBMC built-in strcmp/strncmp/strlen, assumed models of strstr/strcasestr/strcasecmp/strncasecmp (C locale)"])
unit("match.parse", ["C16", "C06"], "units/u_fetch_parse.c", entry="h_match_parse", kind="bounded", tier="thorough", best_effort=True,
     bound="rule objects of <= 3 members over 10 adversarial names x 6 JSON types, containsAllOf lists of <= 2 elements",
     unwind=20, functions=["create_fetch", "alloc_fetch", "add_matchers", "create_matcher", "fill_path_elements", "create_path_matcher", "free_matcher", "free_path_elements", "free_fetch"],
     expect_tags=["C16.parse.every-matcher-slot-filled", "C16.parse.unknown-name-or-wrong-operand-type-is-refused"], timeout=300, solver="cadical",
     flags=["--memory-leak-check"], goto_instrument_args=["--value-set-fi-fp-removal"], assumes=CJ_ASSUME_LATE)
unit("fetch.add", ["C02", "C01", "C06"], "units/u_fetch_parse.c", entry="h_fetch_add", unwind=12, cbmc_unwindset=CJ_UNWIND_LATE + ["cJSON_GetObjectItem.0:5"], functions=["add_fetch_to_peer", "get_fetch_id", "find_fetch", "ids_equal", "create_fetch", "alloc_fetch"],
     shared_tags=True, expect_tags=["C02.fetch.refusal-answers-the-request-not-its-parameters", "C02.fetch.accepted-iff-well-formed-and-the-fetch-id-is-not-in-use"], timeout=300, solver="cadical",
     flags=["--memory-leak-check"], goto_instrument_args=["--value-set-fi-fp-removal"], assumes=CJ_ASSUME_LATE)
unit("match.conj", ["C16", "C06"], "units/u_fetch_parse.c", entry="h_match_conj", unwind=4, functions=["state_matches"],
     expect_tags=["C16.conj.selected-iff-every-matcher-accepts"], timeout=300, solver="cadical", goto_instrument_args=["--value-set-fi-fp-removal"])
unit("match.table", ["C16"], "units/match_fn.c", entry="h_match_table", unwind=16, functions=["matchers[] (rule-name table)"],
     expect_tags=["C16.match.table-names", "C16.match.table-functions"], timeout=120)

# ------------------------------------------------------------------------------------------
# C12 WebSocket endpoint
# ------------------------------------------------------------------------------------------
WS_COMMON = dict(includes=["{REPO}/src/zlib"], defines=["NO_GZIP"], solver="cadical", unwind=16,
                 goto_instrument_args=["--value-set-fi-fp-removal"])
unit("ws.hdr", ["C12", "C06"], "units/ws.c", entry="h_ws_hdr",
     functions=["ws_get_header", "ws_get_first_length", "ws_get_length16", "ws_get_length64", "ws_get_mask", "read_mask_or_payload", "handle_error", "websocket_close", "websocket_send_close_frame"],
     expect_tags=["C12.hdr.first-byte-decoded", "C12.hdr.16bit-length-big-endian", "C12.hdr.eof-releases-connection-once"], timeout=300,
     **dict(WS_COMMON, goto_instrument_args=["--remove-function-body", "ws_get_payload", "--generate-function-body", "ws_get_payload", "--generate-function-body-options", "nondet-return", "--value-set-fi-fp-removal"]),
     assumes=["ws_get_payload is cut off in this unit (its body is verified in ws.frame); zero-length frames continue there"])
unit("ws.send", ["C12", "C10", "C06"], "units/ws.c", entry="h_ws_send", functions=["send_frame"],
     expect_tags=["C12.send.minimal-length-16bit", "C12.send.server-frames-unmasked"], timeout=300, **WS_COMMON)
# with permessage-deflate not negotiated the decompression helpers must be unreachable: assert(false) bodies
WS_NO_DEFLATE = ["--remove-function-body", "private_decompress", "--remove-function-body", "reassemble", "--remove-function-body", "websocket_compress",
                 "--generate-function-body", "private_decompress|reassemble|websocket_compress", "--generate-function-body-options", "assert-false-assume-false"]
EXT_COMMON = dict(WS_COMMON, goto_instrument_args=["--remove-function-body", "alloc_compression", "--value-set-fi-fp-removal"], flags=[])
unit("ext.offer.short", ["C19", "C06"], "units/ws.c", entry="h_ext_offer", functions=["check_websocket_extensions", "fill_requested_extension", "write_to_response"], kind="bounded",
     bound="one extension offer (no comma) of 26 bytes, every content (shorter offers: padded with white space)", expect_tags=["C19.ext.response-fits-its-buffer"], timeout=300, tier="thorough", best_effort=True,
     **dict(EXT_COMMON, unwind=28, defines=["NO_GZIP", "EXT_MAX=26", "EXT_SINGLE=1"]), allow_no_body=["alloc_compression"],
     assumes=["alloc_compression (zlib deflateInit/inflateInit) cut off", "isspace: C-locale model", "realloc: cbmc model (may not fail)"])
unit("ext.offer", ["C19", "C06"], "units/ws.c", entry="h_ext_offer", functions=["check_websocket_extensions", "fill_requested_extension", "write_to_response"], kind="bounded",
     bound="Sec-WebSocket-Extensions values of <= 48 bytes, every content", expect_tags=["C19.ext.response-fits-its-buffer"], timeout=300, tier="thorough", best_effort=True,
     **dict(EXT_COMMON, unwind=50), allow_no_body=["alloc_compression"],
     assumes=["alloc_compression (zlib deflateInit/inflateInit) cut off", "isspace: C-locale model", "realloc: cbmc model (may not fail)"])
COMP_ASSUME = ["zlib (src/zlib: inflate, deflate, *Init2_, *End) replaced by assumed contracts that check the windows cjet hands over (stubs/zlib_ghost.h)",
               "memcpy/memmove: byte-loop models", "malloc/realloc never fail (the OOM paths are not covered)"]
def comp_frames_unit(l1, lo, hi, tier):
    unit("comp.frames.first%d.second%d-%d" % (l1, lo, hi), ["C19", "C06"], "units/u_comp.c", entry="h_comp_frames", kind="bounded", tier=tier, best_effort=(tier == "thorough"),
         bound="2 or 3 fragments of %d, %d..%d and <= 3 bytes (every combination as its own constant-size path), text and binary, <= 3 inflate calls per message, every byte value" % (l1, lo, hi),
         functions=["binary_frame_received_comp", "text_frame_received_comp", "reassemble", "private_decompress", "read_int_from_array", "write_int_to_array"],
         includes=["{REPO}/src/zlib"], defines=["NO_GZIP", "COMP_L1MIN=%d" % l1, "COMP_L1=%d" % l1, "COMP_L2MIN=%d" % lo, "COMP_L2=%d" % hi] + (["COMP_REALLOC_LOOP_MAX=400"] if hi > 8 else []),
         unwind=(402 if hi > 8 else 66), solver="cadical",
         flags=["--memory-leak-check", "--slice-formula"], timeout=1800, mem_gb=12, mem_budget_gb=4, shared_tags=True, replay={"c": "replay/comp_replay.c", "extract": "comp_extract", "link": ["src/compression.c", "src/zlib/*.c"], "libs": ["-I", "{REPO}/src/zlib"]}, 
         expect_tags=["C19.reassemble.buffer-accounting-matches-the-allocation", "C19.reassemble.inflate-gets-the-fragments-concatenated-in-order", "C19.decompress.application-gets-exactly-the-inflated-bytes"],
         assumes=COMP_ASSUME + ["realloc: model that copies byte by byte (small objects) / by array primitive, and requires the caller to double (as compression.c does)"])


for _l1 in range(4):
    comp_frames_unit(_l1, 0, 8, "quick")
    for _lo in range(9, 27, 3):
        comp_frames_unit(_l1, _lo, _lo + 2, "thorough")
comp_frames_unit(3, 19, 23, "quick")   # the smallest fragment pair for which ONE doubling of the reassembly buffer is not enough is (3, 20)
unit("comp.message", ["C19", "C06"], "units/u_comp.c", entry="h_comp_message", kind="bounded", bound="compressed payload of <= 6 bytes, <= 3 inflate calls, every byte value",
     functions=["binary_received_comp", "text_received_comp", "private_decompress"],
     includes=["{REPO}/src/zlib"], defines=["NO_GZIP", "COMP_L=6"], unwind=66, solver="cadical", flags=["--memory-leak-check", "--slice-formula"], timeout=600, shared_tags=True, replay={"c": "replay/comp_replay.c", "extract": "comp_extract", "link": ["src/compression.c", "src/zlib/*.c"], "libs": ["-I", "{REPO}/src/zlib"]}, 
     expect_tags=["C19.decompress.inflate-gets-the-payload-unchanged", "C19.decompress.application-gets-exactly-the-inflated-bytes"], assumes=COMP_ASSUME)
unit("comp.sendframe", ["C19", "C10", "C12", "C06"], "units/ws.c", entry="h_comp_sendframe", kind="bounded", bound="messages of <= 8 bytes, every compressed size zlib may produce for them",
     functions=["send_frame", "websocket_compress"], expect_tags=["C19.send.frame-carries-the-complete-block-without-its-tail", "C19.send.incomplete-or-failed-compression-sends-nothing"],
     timeout=600, shared_tags=True, replay={"c": "replay/comp_replay.c", "extract": "comp_extract", "link": ["src/compression.c", "src/zlib/*.c"], "libs": ["-I", "{REPO}/src/zlib"]}, **dict(WS_COMMON, defines=["NO_GZIP", "COMP_L=8"], unwind=32, flags=["--memory-leak-check"]), assumes=COMP_ASSUME)
unit("comp.sendframe.mid", ["C19", "C10", "C12", "C06"], "units/ws.c", entry="h_comp_sendframe", kind="bounded", bound="one message of 120 bytes, every compressed size from 5 to 152 bytes (both sides of the 126-byte header boundary)",
     functions=["send_frame", "websocket_compress"], expect_tags=["C19.send.compressed-frame-sets-rsv1-and-the-compressed-length"],
     timeout=600, shared_tags=True, **dict(WS_COMMON, defines=["NO_GZIP", "COMP_LEN_FIXED=120"], unwind=32, flags=["--memory-leak-check"]), assumes=COMP_ASSUME)
for _d in (1, 0):
    unit("ws.frame.%s" % ("daemon-callbacks" if _d else "any-callbacks"), ["C12", "C06"], "units/ws.c", entry="h_ws_frame",
         functions=["ws_handle_frame", "is_status_code_invalid", "handle_error", "websocket_close", "websocket_send_pong_frame", "websocket_send_close_frame",
                    "text_received_comp", "binary_received_comp", "text_frame_received_comp", "binary_frame_received_comp"],
         expect_tags=["C12.frame.protocol-violation-closes-1002", "C12.frame.ping-answered-by-identical-pong", "C12.close.valid-close-is-echoed-and-connection-released-once"],
         timeout=200, **dict(WS_COMMON, defines=["NO_GZIP", "WS_DAEMON_CB=%d" % _d], goto_instrument_args=WS_NO_DEFLATE + ["--value-set-fi-fp-removal"]),
         assumes=["permessage-deflate not negotiated", "UTF-8 validator by its contract (C18): any verdict", "server-side websocket"])
unit("ws.payload", ["C12", "C06"], "units/ws.c", entry="h_ws_payload", functions=["ws_get_payload"],
     expect_tags=["C12.payload.unmasked-client-frame-closes-1002", "C12.payload.eof-closes-1001"], timeout=200,
     **dict(WS_COMMON, goto_instrument_args=WS_NO_DEFLATE + ["--remove-function-body", "unmask_payload", "--value-set-fi-fp-removal"], flags=[]),
     assumes=["unmask_payload cut off (unit ws.unmask): no effect on the 4-byte dummy buffer"], allow_no_body=["unmask_payload"])
unit("ws.unmask", ["C12", "C06"], "units/ws.c", entry="h_ws_unmask", functions=["unmask_payload"], kind="bounded",
     bound="payload length <= 20 bytes (thorough: 40), start alignment 0..7, any mask and content",
     expect_tags=["C12.unmask.every-payload-byte-xored-with-mask-j-mod-4", "C12.unmask.nothing-outside-the-payload-written"], timeout=300,
     **dict(WS_COMMON, unwind=24, defines_thorough=["WS_UNMASK_MAX=40"], unwind_thorough=44, goto_instrument_args=[]))

# ------------------------------------------------------------------------------------------
# C13 HTTP front door
# ------------------------------------------------------------------------------------------
unit("http.url", ["C13", "C06"], "units/u_http.c", entry="h_http_url", functions=["find_url_handler"], unwind=8, solver="cadical", kind="bounded",
     bound="targets of <= 3 characters, request paths of <= 5 characters, <= 2 handlers", expect_tags=["C13.url.handler-selected-iff-the-path-starts-with-its-whole-target"], timeout=300,
     includes=["{REPO}/src/http-parser"])
unit("http.start", ["C13", "C07", "C06"], "units/u_http.c", entry="h_http_start", functions=["read_start_line", "on_url", "send_http_error_response", "free_connection", "get_response"], unwind=40, solver="cadical",
     flags=["--memory-leak-check"], expect_tags=["C13.start.refused-exchange-leaves-no-peer-behind", "C13.start.refused-exchange-releases-the-connection-once"], timeout=300,
     goto_instrument_args=["--value-set-fi-fp-removal"], replay={"c": "replay/http_replay.c", "extract": "http_extract", "link": ["src/http-parser/http_parser.c"]},
     assumes=["http_parser_execute / http_parser_parse_url: assumed contracts (the vendored parser is not verified): on_url may be invoked and the line still be rejected"])
unit("ws.version", ["C13", "C12"], "units/ws.c", entry="h_ws_version", functions=["check_http_version"], expect_tags=["C13.version.upgrade-only-for-http-1.1-or-higher"], timeout=120,
     **dict(WS_COMMON, unwind=4, goto_instrument_args=[]))

# ------------------------------------------------------------------------------------------
# C20 password change (auth_file.c)
# ------------------------------------------------------------------------------------------
unit("pw.change", ["C20", "C08", "C06"], "units/u_authfile.c", entry="h_pw_change", functions=["change_password", "is_readonly", "is_admin", "get_salt_from_passwd", "fill_salt", "write_user_data", "clear_password"],
     unwind=20, cbmc_unwindset=["cj_delete_0.0:6", "cj_delete_1.0:6", "cj_delete_2.0:5", "cj_delete_3.0:5", "cj_name_eq_nocase.0:10", "strlen.0:10", "memcpy.0:10", "strcmp.0:10", "write_user_data.0:8"],
     solver="cadical", kind="proof", bound="two accounts with names of 1-2 characters over {a,b,c}, the four stored-hash formats, every caller/target combination, every truncate/short-write/error outcome (<= 4 write calls)",
     expect_tags=["C20.change.unauthorised-request-changes-nothing", "C20.salt.well-formed-salt-for-the-accounts-method", "C20.write.database-rewritten-from-offset-zero"], timeout=900, mem_gb=30,
     assumes=CJ_ASSUME_LATE + ["crypt(): uninterpreted (returns a fixed hash or NULL) - 'the new password authenticates' is decided only up to crypt", "ftruncate / lseek / write: ghost file (short writes and errors at every call)"])

# ------------------------------------------------------------------------------------------
# C10 outbound streams / C09 inbound segmentation (buffered_socket.c)
# ------------------------------------------------------------------------------------------
def cut(fns):
    """goto-instrument arguments: the listed functions must be unreachable in the unit (body := assert(false))"""
    a = []
    for f in fns:
        a += ["--remove-function-body", f]
    return a + ["--generate-function-body", "|".join(fns), "--generate-function-body-options", "assert-false-assume-false"]


BS_COMMON = dict(cfg="small4", defines=["BS_IOV_MAX=3", "IN_MAX=12"], solver="cadical", unwind=6, cbmc_unwindset=["arbitrary_reader_state.0:14", "arbitrary_reader_state.1:6"], mem_gb=24, kind="proof",
                 bound="configuration CONFIG_MAX_MESSAGE_SIZE = CONFIG_MAX_WRITE_BUFFER_SIZE = 4 (all loops bounded by the buffer size; unwinding assertions on); frames of <= 2 x 3 bytes; input streams of <= 12 bytes",
                 assumes=["ghost kernel: writev accepts any non-empty prefix or fails with any errno; read delivers any non-empty prefix of the stream, 0 or -1",
                          "memcpy/memmove/memmem: byte-loop models"])
BS_WRITE = dict(BS_COMMON, goto_instrument_args=cut(["read_function", "go_reading", "get_read_ptr", "internal_read_until"]) + ["--restrict-function-pointer", "error_function.function_pointer_call.1/stub_error"])
BS_READ = dict(BS_COMMON, goto_instrument_args=cut(["write_function", "send_buffer", "read_function", "go_reading", "error_function"]))
unit("bs.writev", ["C10"], "units/bs.c", entry="h_bs_writev",
     functions=["buffered_socket_writev", "copy_iovec_to_write_buffer", "copy_single_buffer", "send_buffer"],
     expect_tags=["C10.writev.accepted-frame-sent-or-pending-completely", "C10.writev.bytes-in-generation-order", "C10.writev.refused-frame-leaves-no-byte-behind"], timeout=700,
     replay={"c": "replay/bs_replay.c", "extract": "bs_extract"}, **BS_WRITE)
unit("bs.flush", ["C10"], "units/bs.c", entry="h_bs_flush", functions=["write_function", "send_buffer", "error_function"],
     expect_tags=["C10.flush.nothing-lost-nothing-duplicated", "C10.flush.bytes-in-order"], timeout=700, **BS_WRITE)
unit("bs.start", ["C09", "C13", "C05"], "units/bs.c", entry="h_bs_start", tier="thorough", best_effort=True, functions=["buffered_socket_read_until", "buffered_socket_read_exactly", "go_reading", "buffered_socket_init", "error_function"],
     expect_tags=["C13.start.read-error-and-over-long-line-are-reported-through-the-error-callback", "C05.start.no-callback-after-the-connection-was-closed"], timeout=300,
     **dict(BS_COMMON, unwind=14, goto_instrument_args=cut(["write_function", "send_buffer", "read_function"]) + ["--value-set-fi-fp-removal"]))
unit("bs.read_exactly", ["C09"], "units/bs.c", entry="h_bs_read_exactly", functions=["get_read_ptr", "fill_buffer", "reorganize_read_buffer"],
     expect_tags=["C09.exact.hands-out-the-next-stream-bytes-whatever-the-chunking", "C09.exact.buffer-still-mirrors-the-stream"], timeout=700, **BS_READ)
unit("bs.read_until", ["C09"], "units/bs.c", entry="h_bs_read_until", functions=["internal_read_until", "fill_buffer", "reorganize_read_buffer"],
     expect_tags=["C09.until.hands-out-the-next-stream-bytes", "C09.until.stops-at-the-first-delimiter"], timeout=700, **BS_READ)

# ------------------------------------------------------------------------------------------
# C02 JSON-RPC discipline (response.c, parse.c)
# ------------------------------------------------------------------------------------------
# the model's Delete/Duplicate chains: siblings per level are few in every unit; a tight per-loop bound keeps the
# nested unrolling small (unwinding assertions still check it)
CJ_UNWIND = ["cj_delete_0.0:6", "cj_delete_1.0:6", "cj_delete_2.0:5", "cj_delete_3.0:5", "cj_dup_0.0:4", "cj_dup_1.0:4", "cj_dup_2.0:4"]
CJ_ASSUME = ["cJSON: executable model stubs/cjson_model.h (assumed contract of the vendored library)"]
for _h, _fns in (("error", ["create_error_response", "create_error_object", "create_common_response", "add_subobject_to_object"]),
                 ("result", ["create_result_response", "create_common_response"]),
                 ("from_request", ["create_error_response_from_request", "create_success_response_from_request", "create_result_response_from_request"])):
    unit("resp." + _h, ["C02"], "units/resp.c", entry="h_resp_" + _h, functions=_fns, unwind=20, cbmc_unwindset=CJ_UNWIND, solver="cadical",
         kind="proof", bound="id strings <= 3 characters; every id type and every double; string literals <= 24 characters",
         flags=["--memory-leak-check"], timeout=300, assumes=CJ_ASSUME)
    unit("resp.%s.allocfail" % _h, ["C15"], "units/resp.c", entry="h_resp_" + _h, functions=_fns, unwind=20, cbmc_unwindset=CJ_UNWIND, mem_gb=30, solver="cadical",
         defines=["RESP_FAIL=1"], kind="proof", bound="as resp.%s; every subset of allocations fails" % _h,
         flags=["--memory-leak-check"], timeout=300, assumes=CJ_ASSUME)

INFO_COMMON = dict(unwind=26, cbmc_unwindset=CJ_UNWIND + ["cJSON_GetObjectItem.0:6", "cj_name_eq_nocase.0:18", "count_members.0:6", "count_all.0:6"], solver="cadical", kind="proof",
                   flags=["--memory-leak-check"], timeout=600,
                   assumes=CJ_ASSUME + ["create_result_response_from_request: recording stub with the ownership contract proved by resp.from_request / resp.result"])
unit("info", ["C02", "C06"], "units/u_info.c", entry="h_info", functions=["handle_info", "create_info"], shared_tags=True,
     bound="loop-free handler; every path", expect_tags=["C02.info.answer-lists-name-version-protocol-and-features", "C02.info.exactly-one-value-handed-to-the-response-builder"], **INFO_COMMON)
unit("info.allocfail", ["C15", "C02", "C06"], "units/u_info.c", entry="h_info", functions=["handle_info", "create_info"], shared_tags=True, defines=["INFO_FAIL=1"],
     bound="loop-free handler; every subset of its allocations fails", expect_tags=["C15.info.answer-is-complete-or-absent-never-partial", "C15.info.allocation-failure-leaks-nothing"], **INFO_COMMON)

CFG_COMMON = dict(unwind=8, cbmc_unwindset=["cJSON_GetObjectItem.0:4", "cj_name_eq_nocase.0:9"], solver="cadical", kind="proof", flags=["--memory-leak-check"], timeout=120,
                  bound="loop-free handler; names of <= 2 characters", assumes=CJ_ASSUME + ["response builders: counting stubs", "duplicate_string: copies or (allocfail variant) returns NULL"])
unit("cfg.peer", ["C02"], "units/u_config.c", entry="h_cfg_peer", functions=["config_peer", "set_peer_name", "get_peer_name", "get_params"], shared_tags=True,
     expect_tags=["C02.config.exactly-one-response-is-built", "C02.config.refused-request-leaves-the-name-alone"], **CFG_COMMON)
unit("cfg.peer.allocfail", ["C15"], "units/u_config.c", entry="h_cfg_peer", functions=["config_peer", "set_peer_name", "get_peer_name", "get_params"], shared_tags=True, defines=["CFG_FAIL=1"],
     expect_tags=["C15.config.name-is-the-new-copy-or-absent-never-the-released-one", "C15.config.old-name-released-exactly-once"], **CFG_COMMON)

unit("rpc.dispatch", ["C02", "C06"], "units/u_rpc.c", entry="h_rpc_dispatch", functions=["parse_json_rpc", "handle_method", "send_response", "process_fetch"], unwind=16, cbmc_unwindset=CJ_UNWIND + ["cJSON_GetObjectItem.0:6", "cj_name_eq_nocase.0:9"], solver="cadical",
     kind="proof", bound="every combination of method (12 names, unknown, non-string) / id / result / error members",
     expect_tags=["C02.dispatch.exactly-one-handler-per-request-object", "C02.dispatch.each-built-response-is-sent-exactly-once", "C02.dispatch.incoming-result-is-routed-never-answered"],
     flags=["--memory-leak-check"], goto_instrument_args=["--restrict-function-pointer", "send_response.function_pointer_call.1/stub_send"], timeout=600,
     assumes=CJ_ASSUME + ["handlers and router: recording stubs returning NULL or a fresh response", "send_message: returns 0 or -1"])
unit("rpc.batch", ["C02", "C06"], "units/u_rpc.c", entry="h_rpc_batch", functions=["parse_json_array", "parse_json_rpc"], unwind=16, cbmc_unwindset=CJ_UNWIND + ["cJSON_GetObjectItem.0:6", "cj_name_eq_nocase.0:9", "cJSON_GetArrayItem.0:5", "cJSON_GetArraySize.0:5", "parse_json_array.0:5"], solver="cadical",
     kind="proof", bound="batches of <= 3 members, each the minimal request or a non-object",
     expect_tags=["C02.batch.members-processed-in-order", "C02.batch.members-processed-until-the-first-non-object"],
     goto_instrument_args=["--restrict-function-pointer", "send_response.function_pointer_call.1/stub_send"], timeout=600, assumes=CJ_ASSUME)

# ------------------------------------------------------------------------------------------
# C04 element namespace / C03 routing entry / C01 event order (element.c handlers)
# ------------------------------------------------------------------------------------------
EL_COMMON = dict(unwind=14, cbmc_unwindset=CJ_UNWIND, solver="cadical", kind="proof", flags=["--memory-leak-check"], timeout=600,
                 bound="paths of 1-2 characters, <= 2 existing elements on 2 peers, every member shape of params (path/value/fetchOnly/access/timeout/args/id)",
                 goto_instrument_args=["--value-set-fi-fp-removal"],
                 assumes=CJ_ASSUME + ["path index = ghost finite map (C17 contract)", "fetch.c notify/find, router.c alloc/create/setup, response builders, get_timeout_in_nsec: recording stubs with their contracts"])
for _sh, _nm in ((0, "none"), (1, "p"), (2 | 8, "pq")):
    unit("el.add." + _nm, ["C04", "C01", "C08", "C14", "C02", "C06"], "units/u_element.c", entry="h_el_add", defines=["EL_SHAPE=%d" % _sh],
         functions=["add_element_to_peer", "init_element", "alloc_element", "fill_access", "get_path_from_params", "get_fetch_only_from_params"],
         expect_tags=["C04.add.refused-request-changes-nothing", "C04.add.new-element-indexed-under-its-path-owned-by-the-requester"], **EL_COMMON)
for _sh, _nm in ((0, "none"), (1, "p")):
    unit("el.add.%s.allocfail" % _nm, ["C15"], "units/u_element.c", entry="h_el_add", defines=["EL_SHAPE=%d" % _sh, "EL_ALLOC_FAIL=1"], tier="thorough", shared_tags=True,
         functions=["add_element_to_peer", "init_element"], expect_tags=["C04.add.refused-request-changes-nothing"], **EL_COMMON)
EL_SHAPES = [(0, "none"), (1, "p"), (1 | 4, "q"), (2, "pp"), (2 | 4, "qp"), (2 | 8, "pq"), (2 | 12, "qq")]
for _sh, _nm in EL_SHAPES:
    if _sh != 0:
        unit("el.change." + _nm, ["C04", "C01", "C02", "C06"], "units/u_element.c", entry="h_el_change", functions=["change_state"], defines=["EL_SHAPE=%d" % _sh],
             expect_tags=["C04.change.refused-request-changes-nothing"], **EL_COMMON)
    unit("el.remove." + _nm, ["C04", "C01", "C02", "C06"], "units/u_element.c", entry="h_el_remove", functions=["remove_element_from_peer", "remove_element", "free_element"], defines=["EL_SHAPE=%d" % _sh],
         expect_tags=["C04.remove.refused-request-changes-nothing"], **EL_COMMON)
unit("el.setcall", ["C04", "C03", "C08", "C14", "C02", "C06"], "units/u_element.c", entry="h_el_setcall", functions=["set_or_call", "element_is_fetch_only"],
     expect_tags=["C04.setcall.refused-for-unknown-path-fetch-only-wrong-type-or-missing-group-before-anything-is-routed", "C03.route.delivered-once-to-the-owner-only"], **EL_COMMON)
for _sh, _nm in EL_SHAPES:
    if _nm in ("p", "pp", "pq"):
        unit("el.removeall." + _nm, ["C05", "C01", "C04", "C06"], "units/u_element.c", entry="h_el_removeall", functions=["remove_all_elements_from_peer", "remove_element", "free_element"], defines=["EL_SHAPE=%d" % _sh],
             shared_tags=True, expect_tags=["C05.leave.every-element-of-the-peer-disappears-and-no-other", "C05.leave.subscribers-are-told-remove-once-per-element"], **EL_COMMON)
unit("el.change.p.allocfail", ["C15", "C04", "C06"], "units/u_element.c", entry="h_el_change", functions=["change_state"], defines=["EL_SHAPE=1", "EL_ALLOC_FAIL=1"], shared_tags=True,
     expect_tags=["C04.change.refused-request-changes-nothing"], **EL_COMMON)
unit("el.setcall.allocfail", ["C15", "C07", "C03", "C06"], "units/u_element.c", entry="h_el_setcall", functions=["set_or_call"], defines=["EL_ALLOC_FAIL=1"], shared_tags=True,
     expect_tags=["C15.route.registered-record-is-not-released-by-the-handler", "C02.handler.at-most-one-response-object-built"], **EL_COMMON)

# ------------------------------------------------------------------------------------------
# C03 routed requests (router.c)
# ------------------------------------------------------------------------------------------
RT_COMMON = dict(cfg="rt2", unwind=8, cbmc_unwindset=CJ_UNWIND + ["cj_name_eq_nocase.0:8", "strcmp.0:8", "strlen.0:8", "memcpy.0:8", "hashtable_create_route_table.0:6", "remove_routing_info_from_peer.0:5", "remove_peer_from_routing_table.0:5", "verif_rt_put.0:5", "verif_rt_get.0:5", "verif_rt_remove.0:5"], mem_gb=30, solver="cadical", kind="proof",
                 flags=["--memory-leak-check"], timeout=900,
                 bound="routing table of 4 slots holding <= 2 in-flight requests from 2 callers",
                 goto_instrument_args=["--value-set-fi-fp-removal"],
                 assumes=CJ_ASSUME + ["routing table put/get/remove = finite-map contract (C17) with nondeterministic slot placement over router.c's real slot array", "timers, allocator, send_message: recording stubs", "snprintf stub (ids are not formatted in these units)"])
for _h, _props, _fns, _tags in (
        ("reply", ["C03", "C11", "C07", "C06"], ["handle_routing_response", "format_and_send_response", "create_result_response"], ["C03.reply.caller-gets-exactly-one-answer-with-its-id-and-the-owners-payload", "C03.reply.other-requests-untouched"]),
        ("timeout", ["C14", "C03", "C07", "C06"], ["request_timeout_handler", "create_error_response"], ["C14.timeout.caller-gets-exactly-one-timeout-error-with-its-id"]),
        ("ownerdown", ["C03", "C17", "C14", "C05", "C07", "C06"], ["remove_routing_info_from_peer", "clear_routing_entry", "send_shutdown_response"], ["C03.ownerdown.each-caller-with-an-id-gets-exactly-one-shutdown-error", "C03.ownerdown.table-empty-afterwards"]),
        ("bystander", ["C03", "C17", "C14", "C05", "C07", "C06"], ["remove_peer_from_routing_table", "clear_routing_entry"], ["C03.bystander.requests-of-other-callers-are-untouched"]),
        ("cancel", ["C02", "C03", "C11", "C07", "C06"], ["cancel_routing_request"], ["C02.cancel.request-leaves-the-table-timer-cancelled-and-destroyed-once", "C03.cancel.other-requests-untouched"]),
        ("alloc", ["C03", "C06"], ["alloc_routing_request", "fill_routed_request_id", "calculate_size_for_routed_request_id"], ["C03.alloc.consecutive-requests-get-different-counter-values"]),
        ("setup", ["C03", "C14", "C07", "C06"], ["setup_routing_information"], ["C03.setup.refused-request-is-not-registered", "C14.setup.deadline-is-the-requests-timeout-else-the-elements"])):
    for _sh, _nm in (((1, "c1"), (2, "c1c1"), (2 | 8, "c1c2")) if _h not in ("setup", "alloc") else (((0, "empty"), (1, "c1")) if _h == "setup" else ((0, "empty"),))):
        _c = dict(RT_COMMON, defines=["RT_SHAPE=%d" % _sh])
        if _h in ("ownerdown", "bystander"):
            # the sweeps visit every slot: a 2-slot table keeps them small and still has a "last slot"
            _c = dict(_c, cfg="rt1", bound="routing table of 2 slots (order 1) holding <= 2 in-flight requests from 2 callers")
        unit("rt.%s.%s" % (_h, _nm), _props + ["C02"], "units/u_router.c", entry="h_rt_" + _h, functions=_fns, expect_tags=_tags, shared_tags=True, **_c)
        if _h == "alloc":
            unit("rt.alloc.allocfail", ["C15", "C03", "C06"], "units/u_router.c", entry="h_rt_alloc", functions=["alloc_routing_request"], shared_tags=True,
                 expect_tags=["C15.alloc.record-complete-or-not-returned", "C15.alloc.no-node-left-behind"], **dict(_c, defines=_c["defines"] + ["RT_ALLOC_FAIL=1"]))
            unit("rt.message.allocfail", ["C15", "C03", "C06"], "units/u_router.c", entry="h_rt_message", functions=["create_routed_message", "add_item_checked"], shared_tags=True,
                 expect_tags=["C15.message.complete-or-nothing", "C15.message.no-node-left-behind"], **dict(_c, defines=_c["defines"] + ["CJ_DEPTH=2"]))
        if _h == "reply" and _nm == "c1c2":
            unit("rt.reply.allocfail", ["C15", "C03", "C06"], "units/u_router.c", entry="h_rt_reply", functions=_fns, shared_tags=True,
                 expect_tags=["C15.reply.at-most-one-answer-with-its-id-and-the-owners-payload", "C03.reply.no-json-node-left-behind"],
                 **dict(_c, defines=_c["defines"] + ["RT_ALLOC_FAIL=1"]))


# ------------------------------------------------------------------------------------------
# C01 / C11 subscription bookkeeping and event delivery (fetch.c)
# ------------------------------------------------------------------------------------------
FX_COMMON = dict(unwind=10, cbmc_unwindset=CJ_UNWIND + ["cj_name_eq_nocase.0:12", "strcmp.0:8", "strlen.0:12", "memcpy.0:12"], solver="cadical", kind="proof", flags=["--memory-leak-check"], timeout=600,
                 goto_instrument_args=["--value-set-fi-fp-removal"],
                 bound="subscription tables of 3-4 slots, 3 subscribing peers whose sockets fail in any combination, one-character paths",
                 assumes=CJ_ASSUME + ["send_message: succeeds or fails per peer (arbitrary)", "fetch rules: fetch-all (rule matching itself is C16)"])
unit("fx.notify", ["C01", "C11", "C06"], "units/u_fetch.c", entry="h_fx_notify", functions=["notify_fetchers", "notify_fetching_peer"],
     expect_tags=["C11.notify.every-subscriber-is-sent-the-event-once-whatever-happens-to-the-others", "C01.notify.event-carries-fetch-id-path-event-and-current-value"], **FX_COMMON)
unit("fx.notify.allocfail", ["C15", "C01", "C06"], "units/u_fetch.c", entry="h_fx_notify", functions=["notify_fetchers", "notify_fetching_peer"], shared_tags=True,
     expect_tags=["C15.notify.a-notification-that-is-sent-is-complete", "C15.notify.no-json-node-left-behind"], **dict(FX_COMMON, defines=FX_COMMON.get("defines", []) + ["FX_ALLOC_FAIL=1"]))
unit("fx.getelement", ["C08", "C02", "C06"], "units/u_fetch.c", entry="h_fx_getelement", functions=["get_element", "state_matches", "add_item_checked"], shared_tags=True,
     expect_tags=["C08.get.exactly-the-visible-states-with-a-value-are-listed", "C15.get.a-listed-state-is-complete-path-and-current-value"], **FX_COMMON)
unit("fx.getelement.allocfail", ["C15", "C06"], "units/u_fetch.c", entry="h_fx_getelement", functions=["get_element", "state_matches", "add_item_checked"], shared_tags=True,
     expect_tags=["C15.get.a-listed-state-is-complete-path-and-current-value", "C15.get.a-failed-entry-is-not-listed", "C15.get.no-json-node-left-behind"], **dict(FX_COMMON, defines=FX_COMMON.get("defines", []) + ["FX_GET_FAIL=1"]))
FX_GETALL = dict(FX_COMMON, cbmc_unwindset=FX_COMMON["cbmc_unwindset"] + ["cJSON_GetObjectItem.0:4"])
unit("fx.getall", ["C08", "C02", "C06"], "units/u_fetch.c", entry="h_fx_getall", functions=["get_elements", "get_elements_in_peer", "get_element", "create_fetch", "alloc_fetch", "free_fetch", "get_params"], shared_tags=True,
     expect_tags=["C08.get.answer-lists-exactly-the-visible-states", "C02.get.exactly-the-returned-response-was-built"], **FX_GETALL)
unit("fx.getall.allocfail", ["C15", "C02", "C06"], "units/u_fetch.c", entry="h_fx_getall", functions=["get_elements", "get_elements_in_peer", "get_element", "create_fetch", "alloc_fetch", "free_fetch", "get_params"], shared_tags=True,
     expect_tags=["C15.get.handler-leaves-no-json-node-behind", "C02.get.exactly-the-returned-response-was-built"], **dict(FX_GETALL, defines=FX_COMMON.get("defines", []) + ["FX_GET_FAIL=1"]))
unit("fx.getall.rule.allocfail", ["C15", "C02", "C06"], "units/u_fetch.c", entry="h_fx_getall", functions=["get_elements", "create_fetch", "alloc_fetch", "add_matchers", "create_matcher", "free_fetch", "state_matches"], shared_tags=True,
     expect_tags=["C15.get.handler-leaves-no-json-node-behind", "C02.get.exactly-the-returned-response-was-built"],
     **dict(FX_GETALL, unwind=14, cbmc_unwindset=CJ_UNWIND + ["cj_name_eq_nocase.0:18", "strcmp.0:18", "strlen.0:18", "memcpy.0:18", "cJSON_GetObjectItem.0:4", "strncmp.0:18"], defines=FX_COMMON.get("defines", []) + ["FX_GET_FAIL=1", "FX_GET_PATH=1"]))
unit("fx.subscribe", ["C01", "C15", "C06"], "units/u_fetch.c", entry="h_fx_subscribe", functions=["add_fetch_to_state"],
     expect_tags=["C01.subscribe.fetch-added-once-other-subscriptions-kept"], **FX_COMMON)
unit("fx.addnotify", ["C01", "C08", "C06"], "units/u_fetch.c", entry="h_fx_addnotify", functions=["add_fetch_to_state_and_notify", "state_matches", "add_fetch_to_state", "notify_fetching_peer"],
     expect_tags=["C08.fetch.element-without-a-shared-fetch-group-is-invisible", "C01.fetch.matching-visible-element-is-subscribed-and-announced-once"], **FX_COMMON)
unit("fx.dropall", ["C05", "C01", "C06"], "units/u_fetch.c", entry="h_fx_dropall", functions=["remove_all_fetchers_from_peer", "remove_fetch_from_states", "remove_fetch_from_states_in_peer", "remove_fetch_from_state", "free_fetch"],
     expect_tags=["C05.fetch.no-element-mentions-a-released-fetch"], **FX_COMMON)

# ------------------------------------------------------------------------------------------
# C08 access control (peer.c, groups.c, authenticate.c, linux_io.c)
# ------------------------------------------------------------------------------------------
unit("peer.init", ["C08", "C06"], "units/u_peer.c", entry="h_peer_init", functions=["init_peer"], unwind=4, solver="cadical",
     expect_tags=["C08.peer.new-peer-holds-no-groups"], timeout=120, assumes=["add_routing_table: returns 0 or -1"])
unit("peer.teardown", ["C05", "C01", "C07", "C06"], "units/u_peer.c", entry="h_peer_teardown", shared_tags=True, functions=["free_peer_resources", "remove_peer_from_routes", "init_peer"], unwind=5, solver="cadical",
     flags=["--memory-leak-check"], expect_tags=["C05.teardown.fetches-end-before-elements-disappear", "C05.teardown.peer-unlinked-others-stay"], timeout=120,
     assumes=["the five teardown callees are recording stubs (their own behaviour: rt.ownerdown, rt.bystander, fx.dropall, el.remove)"])
unit("peer.log", ["C06"], "units/u_peer.c", entry="h_peer_log", functions=["log_peer_err", "log_peer_info", "get_peer_name"], unwind=4, solver="cadical",
     expect_tags=["C06.log.size-fits-remaining-buffer"], timeout=120,
     assumes=["snprintf/vsnprintf: write at most `size` bytes, return the would-be length (any value >= 0)"])
unit("auth.handle", ["C08", "C07", "C15", "C06"], "units/u_auth.c", entry="h_auth_handle", functions=["handle_authentication", "get_params"], unwind=14, solver="cadical",
     kind="proof", bound="every member shape of params (missing / mistyped user and password), every subset of the user's group lists, allocation of the user name may fail",
     flags=["--memory-leak-check"], expect_tags=["C08.auth.failed-authentication-changes-nothing", "C08.auth.success-assigns-exactly-the-users-groups", "C08.auth.password-never-appears-in-a-response"], timeout=300,
     assumes=CJ_ASSUME + ["credentials_ok / get_groups / response builders: stubs; password flow is tracked at pointer level only (copies are not tracked)"])
unit("grp.bits", ["C08", "C06"], "units/u_groups.c", entry="h_grp_bits", functions=["get_groups", "has_access"], unwind=8, solver="cadical",
     kind="proof", bound="up to 4 registered groups, up to 2 listed groups, names of 1 or 2 characters",
     expect_tags=["C08.grp.bit-j-set-iff-a-listed-name-equals-registered-group-j", "C08.grp.access-is-non-empty-intersection"], timeout=300, assumes=CJ_ASSUME)
unit("grp.bits.32", ["C08", "C06"], "units/u_groups.c", entry="h_grp_bits", functions=["get_groups"], unwind=34, solver="cadical",
     defines=["G_MAX=32", "G_FULL=1"], kind="proof", bound="exactly 32 registered groups (the maximum), one listed group, names of 1 or 2 characters",
     expect_tags=["C08.grp.bit-j-set-iff-a-listed-name-equals-registered-group-j"], timeout=900, assumes=CJ_ASSUME)

# ------------------------------------------------------------------------------------------
# property metadata (level, trusted base, what is not decided)
# ------------------------------------------------------------------------------------------
HARNESS_NOTE = ("Contracts of this property are PRE/POST pairs checked by hand-instrumented harnesses (assume PRE; snapshot; call the real function; "
                "assert POST incl. explicit frame assertions) because cbmc's --dfcc instrumentation did not finish on these units; loops have constant bounds "
                "and are unwound completely (unwinding assertions on).")
PROPERTY_META["C17"] = {
    "level": "proof",
    "design_ref": "DESIGN.md sections 3 (C17), 10.6 and 10.8",
    "level_text": ("Per table order: hashtable_get/put/remove of the real DECLARE_HASHTABLE macro are proved to implement the finite-map operations "
                   "(lookup of an arbitrary second key unchanged, value most recently stored returned, refusal only when the add range of the key's home is full) "
                   "and to preserve the representation invariant, from EVERY table state satisfying the invariant, for orders 2 and 3 (uint32 keys) with an "
                   "uninterpreted hash function (so every collision pattern incl. wrap-around across the table end is covered). " + HARNESS_NOTE),
    "level_note": ("Quick tier: table orders 2 and 3 (uint32 keys), where the displacement path is proved unreachable, and the routing-table sweeps of router.c (rt.ownerdown / rt.bystander, 2-slot table). "
                   "Thorough tier, order 7 (the smallest order where insertion displaces entries): find_closer_entry preserves the invariant with a hole and the view at arbitrary ghost indices (ht.closer.1-9, "
                   "obligation 7 best effort), its exact effect is the contract of the stub (ht.closer.fx), and hashtable_put with that stub is checked for result, reachability of the new binding and its call-site "
                   "obligations for one displacement step (ht.putd.m1.1/2); the invariant/view obligations through the displacement loop (ht.putd.m1.3-8, m2.4/6) are best effort: a counterexample was found for the "
                   "unrepaired tree, the proofs on the repaired tree did not finish - so the end-to-end obligation for put at order >= 7 is NOT discharged. Also not decided: orders 4-6 and >= 8, string keys "
                   "(hash_func_*_string, strcmp), one free position / home per unit (rotation symmetry assumed). Trusted: CBMC, SAT solver, the hash functions abstracted as uninterpreted / as an arbitrary table."),
    "explanation": "C17: finite-map contracts on hashtable_get/put/remove/create (orders 2, 3), find_closer_entry and put with displacement (order 7, thorough), routing-table sweeps.",
    "not_decided": ["table orders 4-6, >= 8; order 7 put: invariant through the displacement loop (best effort, undecided)", "string-keyed instantiation", "positions other than the one per unit (rotation symmetry assumed)"],
    "assumptions": ["hash function = arbitrary function into [0,2^order)", "stored values != (void*)-1 (used as 'absent' marker in the spec)"],
}
PROPERTY_META["C16"] = {
    "level": "other",
    "level_text": ("Bounded but exhaustive-within-bound: each of the twelve match functions equals a reference predicate written from the statement for every path of <= 4 bytes "
                   "and operands of <= 3 bytes over all 256 byte values; rule parsing (create_fetch/add_matchers/create_matcher) for every rule object of <= 3 members over an "
                   "adversarial name set and every operand type; the conjunction state_matches for <= 3 matchers; the name->function table."),
    "level_note": ("Bounded stand-ins (string lengths, member counts) - not counted as proved. libc string functions are CBMC built-ins or assumed models (C locale); cJSON is an executable model. "
                   "The configured maximum of matchers (12) is not reached by the 3-member bound."),
    "explanation": "C16: bounded CBMC checks (unwinding assertions on) of the matcher functions, the rule parser and the conjunction against reference predicates.",
    "not_decided": ["paths/operands longer than the bound", "more than 3 rule members (incl. the too-many-matchers refusal)", "get_elements' own iteration"],
}
PROPERTY_META["C12"] = {
    "level": "proof",
    "level_text": ("Loop-free, full-domain harness proofs on the real websocket.c: the frame-header state machine decodes FIN/RSV/opcode/MASK and all three length encodings exactly as RFC 6455 5.2 and requests the "
                   "mandated next read; ws_handle_frame's outcome equals a decision table written from RFC 6455 5.4/5.5/7.4 and the statement for every flag/opcode/length/fragmentation state and both the daemon's and "
                   "an arbitrary callback set (never a call through an unset callback); server frames are unmasked, FIN, minimally length-encoded with untouched payload; ping -> pong with identical payload. "
                   "Unmasking is a bounded check (payload <= 20 bytes x 8 alignments)."),
    "level_note": ("Not decided: handshake (header callbacks, SHA-1/base64 accept digest), permessage-deflate paths (assumed not negotiated; helpers proved unreachable), client-mode masking, "
                   "'all segmentations' (inherits C09's reader results), transparency w.r.t. the raw transport beyond 'payload pointer and length handed on unchanged'. "
                   "The UTF-8 validator is used by its C18 contract (any verdict). " + HARNESS_NOTE),
    "explanation": "C12: harness-enforced decision-table contracts on ws_get_header..ws_get_mask, ws_get_payload, ws_handle_frame, send_frame, unmask_payload.",
    "not_decided": ["upgrade handshake and accept digest", "compression", "unmask_payload beyond 20/40 bytes"],
}
PROPERTY_META["C10"] = {
    "level": "proof",
    "level_text": ("For the configuration CONFIG_MAX_WRITE_BUFFER_SIZE = 8: buffered_socket_writev and the writability flush are proved against a ghost kernel that accepts ANY non-empty prefix or fails with any errno at every call: "
                   "accepted frames appear on wire ++ pending buffer completely, in generation order, no byte twice (ghost position generalises over all stream positions); refused frames leave nothing behind; the number of kernel calls is bounded "
                   "(no spinning). WebSocket and raw frame headers: see ws.send. " + HARNESS_NOTE),
    "level_note": ("Proved for an 8-byte write buffer and frames of <= 2 x 6 bytes (all loops bounded by the buffer size), not for the production 5120 bytes. Kernel behaviour is an assumed contract. "
                   "Raw-socket length prefix (socket_peer.c) and interleaving with incoming traffic are not covered."),
    "explanation": "C10: ghost-kernel harness contracts on buffered_socket_writev / write_function / send_buffer / copy_* and send_frame.",
    "not_decided": ["production buffer size", "socket_peer.c send_message framing", "interleavings with reads"],
}
PROPERTY_META["C09"] = {
    "level": "proof",
    "level_text": ("For the configuration CONFIG_MAX_MESSAGE_SIZE = 8: get_read_ptr (read exactly n) and internal_read_until are proved, from every reader state that mirrors the input stream and for every way the ghost kernel chunks the stream, "
                   "to hand out exactly the next n stream bytes / the bytes up to and including the first delimiter, to keep the buffer a mirror of stream[consumed, delivered), and to report too-much-data only for requests above the buffer size. " + HARNESS_NOTE),
    "level_note": ("Reader level only: the step from 'callback sequence is a function of the stream' to 'daemon output is independent of segmentation' is outside the verifier. Not covered: socket_peer.c message framing, "
                   "parse_message's use of a NUL-terminated parser on a length-delimited buffer, epoll batch composition. 8-byte buffer configuration, streams <= 24 bytes."),
    "explanation": "C09: ghost-stream harness contracts on get_read_ptr, internal_read_until, fill_buffer, reorganize_read_buffer.",
    "not_decided": ["socket_peer.c / parse.c message boundary", "event batching", "production buffer size"],
}
PROPERTY_META["C02"] = {'level': 'proof',
 'level_text': 'JSON-RPC discipline, per function over the executable cJSON model: (1) every response builder answers exactly string/number ids with an equal id and exactly one '
               'of result/error, builds nothing for other id types and owns the given result exactly once; (2) the dispatcher parse_json_rpc calls exactly one handler per request '
               'object, selects it by the method name, sends each built response exactly once to the requesting peer only and deletes it, never answers incoming result/error '
               'objects (they are routed) nor notifications in error; (3) batch members are processed in order until the first non-object; (4) the element handlers (add, change, '
               'remove, set/call), add_fetch_to_peer and the router paths (reply, timeout, shutdown) build exactly one response per request and address it to the right peer.',
 'level_note': 'The twelve handlers are stubs in the dispatcher unit and are themselves covered only for element.c, router.c, add_fetch_to_peer and authenticate; config.c, '
               'info.c, get and unfetch are not covered. cJSON (parse, print, tree operations) is an assumed executable model; id strings are <= 3 characters; batches <= 3 '
               'members.',
 'explanation': 'C02: harness contracts on response.c, parse_json_rpc/parse_json_array/send_response, the element handlers, add_fetch_to_peer, handle_routing_response / '
                'request_timeout_handler / shutdown paths.',
 'not_decided': ['config/info/get/unfetch handlers', 'the vendored JSON parser itself']}
PROPERTY_META["C08"] = {'level': 'proof',
 'level_text': 'Access control, per function: init_peer leaves a new peer without groups, user and name from ARBITRARY (uninitialised) memory; get_groups sets bit j iff a listed '
               'name EQUALS registered group j (names of 1-2 characters, up to the full 32 groups; prefix-related names included) and has_access is the non-empty intersection; '
               "handle_authentication changes nothing unless the request is well-formed, made before any fetch and the credentials are accepted, then assigns exactly the user's "
               "three group sets and the user name, and never passes the password to a response or a copy; add records the element's access groups; set/call are routed only when "
               'the caller shares a set group resp. call group; a fetch meets an element only with a shared fetch group; a get request lists exactly the states that have a value and share a fetch group with the asking peer (one peer owning one state, fetch-all request); change_password is carried out only for the authorised '
               'cases and wipes the password buffer.',
 'level_note': 'Not covered: credentials_ok / load_passwd_data (crypt, file parsing), get over several peers / states and with matcher rules, origin classification (is_localhost) and the local-only add switch '
               '(compile-time constant false in the verified configuration). Password flow is tracked at pointer level only. cJSON is an assumed model; credential store and '
               'response builders are stubs in the authenticate unit.',
 'explanation': 'C08: harness contracts on init_peer, get_groups, has_access, handle_authentication, add_element_to_peer (access lists), set_or_call, '
                'add_fetch_to_state_and_notify, get_elements / get_element, change_password.',
 'not_decided': ['credentials_ok', 'get with rules or over more than one state', 'connection origin', 'all sequences on every transport (only per-call invariants)']}

# ------------------------------------------------------------------------------------------
# C14 deadlines (timer.c), C07 allocation accounting (alloc.c)
# ------------------------------------------------------------------------------------------
unit("to.value", ["C14", "C06"], "units/u_timer.c", entry="h_to_value", functions=["get_timeout_in_nsec", "convert_seconds_to_nsec"], unwind=4, solver="cadical",
     flags=["--conversion-check", "--float-overflow-check"], expect_tags=["C14.value.accepted-timeout-is-the-given-value", "C14.value.timeout-below-one-millisecond-refused"], timeout=300,
     assumes=["IEEE-754 double semantics as modelled by cbmc", "the JSON parser never yields NaN"])
unit("alloc.acct", ["C07", "C15", "C06"], "units/u_alloc.c", entry="h_alloc_acct", functions=["cjet_malloc", "cjet_calloc", "cjet_free", "cjet_get_alloc_size"], unwind=4, solver="cadical",
     flags=["--malloc-may-fail", "--malloc-fail-null"], expect_tags=["C07.alloc.accounting-exact", "C07.alloc.cap-respected"], timeout=300, shared_tags=True,
     assumes=["request sizes <= 2^32 bytes, nmemb <= 2^16 (derived from the call sites)"])

unit("loop.batch", ["C14", "C09", "C11", "C06"], "units/u_loop.c", entry="h_loop_batch", functions=["handle_events", "eventloop_epoll_remove"], unwind=5, solver="cadical",
     kind="proof", bound="batches of <= 3 events over 3 registered io_events (CONFIG_MAX_EPOLL_EVENTS is 10)", shared_tags=True,
     expect_tags=["C14.batch.dispatched-event-is-still-registered", "C09.batch.every-readable-event-of-the-batch-is-read-once"], timeout=300,
     replay={"c": "replay/loop_replay.c", "extract": "loop_extract"},
     assumes=["callbacks: any callback may deregister any subset of the registered events, returns EL_EVENT_REMOVED iff it removed its own"])

unit("timer.lifecycle", ["C07", "C14", "C06"], "units/u_timerlinux.c", entry="h_timer_lifecycle",
     functions=["cjet_timer_init", "cjet_timer_destroy", "timer_start", "timer_cancel", "timer_read", "convert_timeoutns_to_itimerspec"], unwind=4, solver="cadical",
     expect_tags=["C07.timer.destroy-deregisters-and-closes-its-descriptor-once", "C14.timer.deadline-of-5s-armed-as-5s"], timeout=300,
     goto_instrument_args=["--value-set-fi-fp-removal"],
     assumes=["timerfd_create / timerfd_settime / close: assumed OS contracts (any descriptor or -1; 0 or -1)", "event loop add/remove: recording stubs that require the loop's this_ptr"])

unit("timer.spec", ["C14"], "units/u_timerlinux.c", entry="h_timer_lifecycle", functions=["convert_timeoutns_to_itimerspec"], unwind=4, solver="cadical", tier="thorough", best_effort=True,
     defines=["TIMER_SPEC=1"], expect_tags=["C14.timer.deadline-is-exactly-the-requested-nanoseconds"], timeout=300, goto_instrument_args=["--value-set-fi-fp-removal"],
     assumes=["64-bit division by 10^9: may not finish (then undecided)"])

PROPERTY_META["C14"] = {'level': 'proof',
 'level_text': 'Deadlines, per function: get_timeout_in_nsec over every JSON type and every double (refusal below 1 ms / non-numeric / not representable; exact nanosecond value '
               "otherwise; absent -> default); precedence: add stores the given timeout else the configured default, set/call hand the request's timeout to "
               "setup_routing_information which arms the timer with it, else with the element's; refused set-ups leave no armed timer; timer start/cancel/expiry/destroy life "
               'cycle on the real timer_linux.c (one-shot, handler called at most once, deregistered with the loop object and closed once); request_timeout_handler removes the '
               'entry, sends exactly one timeout error to the caller and releases the record; a cancelled timer does nothing; the same-batch reply/expiry hazard in handle_events '
               'is decided NEGATIVELY (known finding KF-C14-1, native replay under ASan).',
 'level_note': "'No earlier than the deadline / as soon as the loop next runs' is kernel timing and outside this family. The nanosecond split into seconds/nanoseconds is proved "
               'for one concrete deadline in the quick tier (64-bit division by a constant: best-effort in the thorough tier). Event batches of <= 3 events.',
 'explanation': 'C14: harness contracts on get_timeout_in_nsec, init_element/set_or_call (precedence), setup_routing_information, request_timeout_handler, '
                'cjet_timer_init/start/cancel/destroy, handle_events.',
 'not_decided': ['wall-clock clauses', 'full 64-bit range of the seconds/nanoseconds split (thorough, best effort)']}
PROPERTY_META["C07"] = {'level': 'proof',
 'level_text': 'Reclamation, per function: allocator accounting exact and capped (OS allocation may fail); the timer life cycle registers, deregisters (with the loop object) and '
               'closes its descriptor exactly once; routed-request records and their timers are released exactly once on reply, timeout, owner shutdown, caller disconnect and '
               'refused set-up; re-authentication releases the previous user name; peer teardown releases the names; a refused HTTP exchange releases the connection once.',
 'level_note': 'The history-level clauses (heap/descriptors/timers back at baseline after ALL connections are gone, SIGTERM shutdown, never closing a descriptor twice across '
               'modules) are outside per-function contracts and not decided; known finding KF-C13-1 (peer left behind by a rejected request line) is reported under C13/C07.',
 'explanation': 'C07: harness contracts on cjet_malloc/calloc/free, timer_linux.c, router.c release paths, handle_authentication, free_peer_resources, read_start_line.',
 'not_decided': ['whole-run balance', 'signal handling', 'descriptor hygiene across modules']}
PROPERTY_META["C06"] = {
    "level": "proof",
    "level_text": ("Function-wise memory safety: cbmc's bounds / pointer / pointer-arithmetic / signed-overflow / shift checks are discharged for the covered functions under their representation invariants only: "
                   "the peer log line for peer names of any length, the WebSocket header state machine, frame dispatch (no call through an unset callback) and unmasking, peer initialisation, group bits."),
    "level_note": ("C06 is decided per covered function, NOT for the assembled daemon: 'no byte sequence on any endpoint' over all segmentations and interleavings is outside per-function contracts. The anchors "
                   "parse_message (NUL-terminated parse of a length-delimited buffer), the fetch matcher array (thorough tier: match.parse) and the epoll batch dispatch are not covered in the quick tier."),
    "explanation": "C06: safety obligations of the units tagged C06 (see units).",
    "not_decided": ["whole-daemon input robustness", "parse.c message boundary", "http_parser / cJSON internals"],
}

PROPERTY_META["C04"] = {
    "level": "proof",
    "level_text": ("The four element handlers of element.c (add, change, remove, set/call) are proved against the statement for every member shape of the request (missing / mistyped path, value incl. null, fetchOnly, "
                   "access lists, timeout, args, id), <= 2 existing elements on two peers with every owner assignment, symbolic paths of 1-2 characters (so prefix-related and equal paths occur): add succeeds only on a free "
                   "path and indexes exactly one new element owned by the requester; change only by the owner and only for states; remove only an element of the requester with exactly that path; set/call refusals; "
                   "EVERY refused or failed request leaves the set of elements, the owners' lists and all values unchanged and builds exactly one response. The path index is a ghost finite map whose behaviour is what the "
                   "hashtable units (also run for this property) prove for the real table."),
    "level_note": ("Bounded shapes (<= 2 elements, paths <= 2 characters); cJSON, fetch notification, router entry points and response builders are stubs/models with their contracts. Not covered: table.c glue code itself, "
                   "`get`, string-keyed hashtable instantiation, configured resource limits other than 'index full'."),
    "explanation": "C04: harness contracts on add_element_to_peer/init_element, change_state, remove_element_from_peer, set_or_call plus the hashtable finite-map units.",
    "not_decided": ["whole-history reference-map equality (follows by induction outside the verifier)", "paths longer than 2 characters"],
}
PROPERTY_META["C03"] = {
    "level": "proof",
    "level_text": ("Routed set/call, per function: entry (set_or_call: record names caller, owner, original id; one message to the owner only with path and the caller's value/args; refusals before anything is routed), "
                   "id allocation (consecutive requests get different counter values), set-up (registered + armed with the right deadline, or refused with no entry and no armed timer), owner reply (only the replying peer's own table; "
                   "exactly one answer with the caller's id and the owner's payload; other requests untouched; unknown / forged / id-less / duplicated replies have no effect), timeout, owner shutdown (each caller with an id gets "
                   "exactly one shutdown error, table empty) and bystander disconnect (requests of other callers untouched) - from every table shape of <= 2 in-flight requests with nondeterministic slot placement."),
    "level_note": ("The routing table is abstracted by its finite-map contract over router.c's real slot array (justified by the hashtable units, which are part of this check); timers, allocator, send functions and response "
                   "builders are recording stubs; 2-4 slot tables. Interleavings of several callers/owners are covered only as 'every step preserves the per-call contract'. The send-failure-after-registration case "
                   "(error now, timeout later) is not asserted against."),
    "explanation": "C03: harness contracts on set_or_call, alloc_routing_request, setup_routing_information, handle_routing_response, request_timeout_handler, remove_routing_info_from_peer, remove_peer_from_routing_table.",
    "not_decided": ["multi-step interleavings", "uniqueness beyond the counter (32-bit wrap, id truncation by one character)"],
}
PROPERTY_META["C01"] = {
    "level": "other",
    "level_text": ("Per-operation invariants of the fetch replica, not the replica equality itself: events reach exactly the subscribed fetches with fetch id, path, event and current value (notify_fetchers), a fetch meets an element "
                   "(access check, subscription exactly once, 'add' announced once), subscription-table growth keeps all subscriptions, ending fetches leaves no element mentioning them, add/change/remove handlers emit their event "
                   "once and in the right order relative to the index update, teardown ends fetches before elements disappear."),
    "level_note": ("The statement's whole-history replica equality and 'nothing after the unfetch response' follow from these per-step facts only by induction outside the verifier. Known finding KF-C01-1 (add announced, then "
                   "refused by a full index) is reported, not repaired. Fetch rules are fetch-all in these units (rule matching: C16)."),
    "explanation": "C01: harness contracts on notify_fetchers, notify_fetching_peer, add_fetch_to_state(_and_notify), remove_all_fetchers_from_peer, element handlers, free_peer_resources.",
    "not_decided": ["replica equality over histories", "add_fetch_to_states ordering w.r.t. the success response", "get_elements"],
}
PROPERTY_META["C05"] = {
    "level": "other",
    "level_text": ("Teardown, per function: free_peer_resources runs every step once in the order that keeps other peers consistent and unlinks only the leaving peer; the owner's in-flight requests are all answered with a "
                   "shutdown error and released; a leaving caller's own requests are dropped while other callers' requests stay; ending a peer's fetches leaves no element mentioning them and other peers' subscriptions untouched."),
    "level_note": ("Transport-level release order (socket_peer.c / websocket_peer.c: bookkeeping vs. closing the connection), 'nothing is ever written to a released connection' and the read-loop hand-over are NOT covered; "
                   "whole-history clauses are outside per-function contracts."),
    "explanation": "C05: harness contracts on free_peer_resources, remove_routing_info_from_peer, remove_peer_from_routing_table, remove_all_fetchers_from_peer.",
    "not_decided": ["websocket/raw transport close paths", "mid-message / mid-frame disconnect positions"],
}
PROPERTY_META["C11"] = {
    "level": "proof",
    "level_text": ("Delivery loop isolation: notify_fetchers is proved to attempt the delivery to EVERY subscriber exactly once for every arrangement of the subscription table and every subset of failing peers, and to report a failure; "
                   "the event loop aborts only when a callback asks for it."),
    "level_note": ("Only the delivery loop and the batch loop are covered. accept() failures, the add/fetch loops that still stop at the first failure (add_fetch_to_states_in_peer, find_fetchers_for_element), and the relative "
                   "'same history with healthy peers' claim are not covered."),
    "explanation": "C11: harness contracts on notify_fetchers and handle_events.",
    "not_decided": ["accept path", "other delivery loops", "history-relative clause"],
}
PROPERTY_META["C20"] = {
    "level": "proof",
    "level_text": ("change_password is proved over a two-account database with symbolic 1-2 character names (equal, different, prefix-related), every readonly/admin combination, every caller (unauthenticated, either account, unknown) "
                   "and target, the four stored-hash formats and every outcome of ftruncate / short write / write error: the password is replaced and the file rewritten ONLY for an authenticated caller changing its own non-read-only account or an admin "
                   "changing another non-read-only account; other accounts are untouched; the salt handed to crypt() is well-formed for the account's method; the database is rewritten from offset 0 and a short write continues where it stopped; "
                   "the password buffer is wiped on every exit."),
    "level_note": ("crypt() is uninterpreted: 'the new password authenticates and the old one does not' is decided only up to crypt. The crash-atomicity clause is decided NEGATIVELY: known finding KF-C20-1 (truncate-then-write). "
                   "load_passwd_data / credentials_ok are not covered. cJSON is an executable model."),
    "explanation": "C20: harness contract on change_password with get_salt_from_passwd, fill_salt, write_user_data, is_admin, is_readonly inlined.",
    "not_decided": ["crypt semantics", "crash points between system calls beyond the ghost-file states", "load/parse of the credential file"],
}
PROPERTY_META["C13"] = {
    "level": "other",
    "level_text": ("The request-line handler is proved against an assumed contract of the vendored parser: every refused exchange is answered with an HTTP 4xx/5xx status (or closed on EOF) and releases the connection exactly once; "
                   "the URL handler is selected iff the request path starts with the whole configured target (bounded strings); the upgrade is accepted only for HTTP/1.1 or higher. The peer-left-behind clause is decided NEGATIVELY: "
                   "known finding KF-C13-1, which replays against the real parser."),
    "level_note": ("http_parser internals, header-block handling in websocket.c (key, version 13, sub-protocol), over-long lines (thorough tier: bs.start) and descriptor accounting are not covered; the parser is an assumed contract."),
    "explanation": "C13: harness contracts on read_start_line/on_url/free_connection, find_url_handler, check_http_version.",
    "not_decided": ["vendored parser", "header phase", "segmentation of the request"],
}
PROPERTY_META["C15"] = {
    "level": "proof",
    "level_text": ("Allocation failure, per function and for EVERY subset of failing allocations (a superset of single-fault enumeration): the response builders of response.c leak nothing, never send a response without id / payload and own the "
                   "result exactly once; the allocator's accounting stays exact when the OS allocation fails; subscription-table growth that fails changes nothing; an authenticate whose user-name copy fails changes nothing; "
                   "the routed path: create_routed_message builds a complete message or nothing and leaves no node behind, set_or_call never releases a routing request that is already registered (and never leaves an answered one registered), "
                   "handle_routing_response answers at most once and releases every node once when the copy of the reply, the response object or its rendering fail; the 'info' handler (create_info) hands a complete answer or none to the response builder and leaks nothing; the 'get' handler (get_elements / get_element / create_fetch / alloc_fetch) lists only complete states, "
                   "builds exactly the response it returns and leaves no JSON node behind when the fetch record, the states array, a state entry or one of its members cannot be allocated."),
    "level_note": ("Covered functions only (response.c, alloc.c, add_fetch_to_state, handle_authentication, create_routed_message, set_or_call, handle_routing_response, handle_info / create_info, get_elements / get_element / create_fetch / alloc_fetch; add_element_to_peer in the thorough tier). Also config_peer / set_peer_name (a failed name copy never leaves the released name in place). Matcher construction (add_matchers: the harness lets every operand copy fail), add_fetch_to_peer and groups.c under allocation failure are not covered; cJSON's own behaviour "
                   "under failure is the executable model's (a failed AddItemToObject does not take ownership). 'Keeps serving afterwards' at daemon level is outside per-function contracts."),
    "explanation": "C15: the harness contracts of the listed units with every allocation (malloc/calloc and every cJSON creator / key copy) allowed to fail independently; cbmc --memory-leak-check and the model's live-node counter as oracles.",
    "not_decided": ["matcher construction and add_fetch_to_peer in fetch.c, groups.c under allocation failure", "heap-cap induced failures at daemon level"],
}
PROPERTY_META["C19"] = {
    "level": "other",
    "design_ref": "DESIGN.md sections 3 (C19) and 10.7",
    "level_text": ("Bounded but exhaustive-within-bound (not counted as proved): contract checks of the code cjet wraps around zlib (src/compression.c, send_frame in src/websocket.c) with inflate()/deflate() replaced by ghost stubs that state zlib's documented contract "
                   "and CHECK every window cjet hands over: for fragmented messages (2-3 fragments; quick tier: first <= 3, second <= 8 - and 19..23 after a 3-byte first one, where one doubling of the buffer is not enough -, third <= 3 bytes; thorough tier: second up to 26; every length triple as its own constant-size path) and unfragmented messages (<= 6 bytes) every byte "
                   "cjet copies stays inside its allocation, the fragments reach inflate concatenated in order followed by 00 00 FF FF, the application gets exactly the inflated bytes once, corrupt streams are reported "
                   "and never delivered, and every buffer is released on every path (cbmc memory-leak check); for outgoing messages (<= 8 bytes, every compressed size zlib may produce) a frame goes out only with the complete "
                   "block minus its tail, RSV1 set and the compressed length, and a failed compression sends nothing. Extension negotiation (check_websocket_extensions) has a best-effort bounded unit in the thorough tier. " + HARNESS_NOTE),
    "level_note": ("NOT decided: the lossless round trip itself and the memory safety of src/zlib (vendored inflate/deflate, ~10 kLOC of bit-level C) - they are the ASSUMED contract here (reads <= avail_in, writes <= avail_out, "
                   "complete output of deflate with a flush is at most len + len/8 + len/64 + 16 bytes and ends in 00 00 FF FF); window-bits / context-takeover combinations only matter inside zlib; lengths are bounded as stated; "
                   "malloc/realloc never fail in these units. Native replays against the real zlib exist for the defects found (replay/comp_replay.c)."),
    "explanation": "C19: harness-enforced contracts on reassemble, private_decompress, the four *_received_comp entry points, websocket_compress and send_frame against a ghost zlib.",
    "not_decided": ["zlib internals (inflate.c, deflate.c): round trip and memory safety", "negotiation (ext.offer is best effort, thorough tier)", "messages beyond the stated length bounds", "allocation failure paths"],
}
PENDING = {}
