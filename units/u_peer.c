/* units peer.* / grp.*: src/peer.c and src/groups.c (properties C08, C06). */
#include "common.h"
#include <stdarg.h>
#include <stdio.h>
#include <string.h>
#include "log_stub.h"

/* assumed contract of snprintf / vsnprintf: writes at most `size` bytes starting at str (so `size` must not
 * exceed what is left of the destination object), returns the would-be length >= 0 */
static int verif_printf_len;
static int verif_check_dest(char *str, size_t size)
{
	__CPROVER_assert(__CPROVER_same_object(str, str) && __CPROVER_POINTER_OFFSET(str) <= __CPROVER_OBJECT_SIZE(str), "C06.log.destination-pointer-inside-buffer");
	__CPROVER_assert(size <= __CPROVER_OBJECT_SIZE(str) - __CPROVER_POINTER_OFFSET(str), "C06.log.size-fits-remaining-buffer");
	if (size > 0) str[0] = 0;
	return verif_printf_len;
}
int snprintf(char *str, size_t size, const char *fmt, ...) { (void)fmt; return verif_check_dest(str, size); }
int vsnprintf(char *str, size_t size, const char *fmt, va_list ap) { (void)fmt; (void)ap; return verif_check_dest(str, size); }

#include "peer.c"

/* environment of peer.c */
static int verif_art_ret;
int add_routing_table(struct peer *p) { (void)p; return verif_art_ret; }
void delete_routing_table(struct peer *p) { (void)p; }
void remove_routing_info_from_peer(const struct peer *p) { (void)p; }
void remove_peer_from_routing_table(const struct peer *p, const struct peer *r) { (void)p; (void)r; }
void remove_all_fetchers_from_peer(struct peer *p) { (void)p; }
void remove_all_elements_from_peer(struct peer *p) { (void)p; }
void cjet_free(void *p) { free(p); }
char *duplicate_string(const char *s) { (void)s; return NULL; }

/* init_peer from arbitrary (uninitialised) memory, as handed out by a non-zeroing allocator */
void h_peer_init(void)
{
	struct peer *p = malloc(sizeof(*p));   /* contents arbitrary */
	__CPROVER_assume(p != NULL);
	verif_art_ret = nondet_bool() ? 0 : -1;
	bool local = nondet_bool();
	struct eventloop loop;
	int n0 = number_of_peers;
	int r = init_peer(p, local, &loop);
	if (r == 0) {
		__CPROVER_assert(p->fetch_groups == 0 && p->set_groups == 0 && p->call_groups == 0, "C08.peer.new-peer-holds-no-groups");
		__CPROVER_assert(p->user_name == NULL && p->name == NULL, "C08.peer.new-peer-is-unauthenticated-and-unnamed");
		__CPROVER_assert(p->is_local_connection == local && p->loop == &loop, "C08.peer.origin-recorded");
		__CPROVER_assert(number_of_peers == n0 + 1 && peer_list.prev == &p->next_peer, "C08.peer.registered-once");
	} else {
		__CPROVER_assert(r == -1 && number_of_peers == n0 && peer_list.next == &peer_list, "C08.peer.failed-init-registers-nothing");
	}
	VERIF_COVER(r == 0, "initialised");
	VERIF_COVER(r != 0, "routing table allocation failed");
}

/* log_peer_err / log_peer_info for a peer name of any length */
void h_peer_log(void)
{
	struct peer p;
	char name[4];
	name[3] = 0;
	p.name = nondet_bool() ? name : NULL;
	verif_printf_len = nondet_int();
	__CPROVER_assume(verif_printf_len >= 0 && verif_printf_len <= 100000); /* would-be length of "<name>: " */
	if (nondet_bool()) log_peer_err(&p, "message %s\n", "x"); else log_peer_info(&p, "message %s\n", "x");
	VERIF_COVER(verif_printf_len == 99, "name fills the buffer");
	VERIF_COVER(verif_printf_len == 7, "short name");
}
