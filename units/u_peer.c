/* units peer.* / grp.*: src/peer.c and src/groups.c (properties C08, C06). */
#include "common.h"
#include <stdarg.h>
#include <stdio.h>
#include <string.h>
#include "log_stub.h"

/* assumed contract of snprintf / vsnprintf: writes at most `size` bytes starting at str (so `size` must not
 * exceed what is left of the destination object), returns the would-be length >= 0 */
static int verif_printf_len;
static int verif_check_dest(char *str, size_t size)
{
	__CPROVER_assert(__CPROVER_same_object(str, str) && __CPROVER_POINTER_OFFSET(str) <= __CPROVER_OBJECT_SIZE(str), "C06.log.destination-pointer-inside-buffer");
	__CPROVER_assert(size <= __CPROVER_OBJECT_SIZE(str) - __CPROVER_POINTER_OFFSET(str), "C06.log.size-fits-remaining-buffer");
	if (size > 0) str[0] = 0;
	return verif_printf_len;
}
int snprintf(char *str, size_t size, const char *fmt, ...) { (void)fmt; return verif_check_dest(str, size); }
int vsnprintf(char *str, size_t size, const char *fmt, va_list ap) { (void)fmt; (void)ap; return verif_check_dest(str, size); }

#include "peer.c"

/* environment of peer.c */
static int verif_art_ret;
int add_routing_table(struct peer *p) { (void)p; return verif_art_ret; }
/* teardown steps are recorded in call order */
enum { S_ROUTING_INFO = 1, S_OTHER_TABLES, S_FETCHERS, S_ELEMENTS, S_DELETE_TABLE };
static int verif_step[8]; static unsigned verif_steps; static const struct peer *verif_step_peer[8]; static const struct peer *verif_step_arg[8];
static void rec(int s, const struct peer *p, const struct peer *arg) { if (verif_steps < 8) { verif_step[verif_steps] = s; verif_step_peer[verif_steps] = p; verif_step_arg[verif_steps] = arg; } verif_steps++; }
void delete_routing_table(struct peer *p) { rec(S_DELETE_TABLE, p, NULL); }
void remove_routing_info_from_peer(const struct peer *p) { rec(S_ROUTING_INFO, p, NULL); }
void remove_peer_from_routing_table(const struct peer *p, const struct peer *r) { rec(S_OTHER_TABLES, p, r); }
void remove_all_fetchers_from_peer(struct peer *p) { rec(S_FETCHERS, p, NULL); }
void remove_all_elements_from_peer(struct peer *p) { rec(S_ELEMENTS, p, NULL); }
static unsigned verif_frees;
void cjet_free(void *p) { verif_frees++; free(p); }
char *duplicate_string(const char *s) { (void)s; return NULL; }

/* init_peer from arbitrary (uninitialised) memory, as handed out by a non-zeroing allocator */
void h_peer_init(void)
{
	struct peer *p = malloc(sizeof(*p));   /* contents arbitrary */
	__CPROVER_assume(p != NULL);
	verif_art_ret = nondet_bool() ? 0 : -1;
	bool local = nondet_bool();
	struct eventloop loop;
	int n0 = number_of_peers;
	int r = init_peer(p, local, &loop);
	if (r == 0) {
		__CPROVER_assert(p->fetch_groups == 0 && p->set_groups == 0 && p->call_groups == 0, "C08.peer.new-peer-holds-no-groups");
		__CPROVER_assert(p->user_name == NULL && p->name == NULL, "C08.peer.new-peer-is-unauthenticated-and-unnamed");
		__CPROVER_assert(p->is_local_connection == local && p->loop == &loop, "C08.peer.origin-recorded");
		__CPROVER_assert(number_of_peers == n0 + 1 && peer_list.prev == &p->next_peer, "C08.peer.registered-once");
	} else {
		__CPROVER_assert(r == -1 && number_of_peers == n0 && peer_list.next == &peer_list, "C08.peer.failed-init-registers-nothing");
	}
	VERIF_COVER(r == 0, "initialised");
	VERIF_COVER(r != 0, "routing table allocation failed");
}

/* log_peer_err / log_peer_info for a peer name of any length */
void h_peer_log(void)
{
	struct peer p;
	char name[4];
	name[3] = 0;
	p.name = nondet_bool() ? name : NULL;
	verif_printf_len = nondet_int();
	__CPROVER_assume(verif_printf_len >= 0 && verif_printf_len <= 100000); /* would-be length of "<name>: " */
	if (nondet_bool()) log_peer_err(&p, "message %s\n", "x"); else log_peer_info(&p, "message %s\n", "x");
	VERIF_COVER(verif_printf_len == 99, "name fills the buffer");
	VERIF_COVER(verif_printf_len == 7, "short name");
}

/* free_peer_resources: every trace of the peer goes, in the order that keeps the remaining peers consistent:
 * answer the requests routed to it, drop its own requests from every peer's table, end its fetches BEFORE its
 * elements disappear (so that no "remove" event is addressed to the leaving peer), then unlink it. */
void h_peer_teardown(void)
{
	struct peer a, b;
	struct eventloop loop;
	verif_art_ret = 0;
	int r1 = init_peer(&a, false, &loop), r2 = init_peer(&b, false, &loop);
	__CPROVER_assume(r1 == 0 && r2 == 0);
	bool named = nondet_bool(), authed = nondet_bool();
	if (named) { a.name = malloc(2); __CPROVER_assume(a.name != NULL); a.name[0] = 'n'; a.name[1] = 0; }
	if (authed) { a.user_name = malloc(2); __CPROVER_assume(a.user_name != NULL); a.user_name[0] = 'u'; a.user_name[1] = 0; }
	int n0 = number_of_peers;
	free_peer_resources(&a);
	__CPROVER_assert(verif_steps == 6, "C05.teardown.all-steps-run-once");
	__CPROVER_assert(verif_step[0] == S_ROUTING_INFO && verif_step_peer[0] == &a, "C05.teardown.requests-routed-to-the-peer-are-answered-first");
	__CPROVER_assert(verif_step[1] == S_OTHER_TABLES && verif_step[2] == S_OTHER_TABLES && verif_step_arg[1] == &a && verif_step_arg[2] == &a &&
		((verif_step_peer[1] == &a && verif_step_peer[2] == &b) || (verif_step_peer[1] == &b && verif_step_peer[2] == &a)), "C05.teardown.own-requests-dropped-from-every-peers-table");
	__CPROVER_assert(verif_step[3] == S_FETCHERS && verif_step_peer[3] == &a && verif_step[4] == S_ELEMENTS && verif_step_peer[4] == &a, "C05.teardown.fetches-end-before-elements-disappear");
	__CPROVER_assert(verif_step[5] == S_DELETE_TABLE && verif_step_peer[5] == &a, "C05.teardown.routing-table-released-last");
	__CPROVER_assert(number_of_peers == n0 - 1 && peer_list.next == &b.next_peer && peer_list.prev == &b.next_peer, "C05.teardown.peer-unlinked-others-stay");
	__CPROVER_assert(verif_frees == (named ? 1u : 0u) + (authed ? 1u : 0u), "C07.teardown.names-released");
	VERIF_COVER(named && authed, "named authenticated peer");
	VERIF_COVER(!named && !authed, "anonymous peer");
}
