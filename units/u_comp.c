/* units comp.*: src/compression.c (property C19) - the buffer arithmetic cjet wraps around zlib.
 *
 * zlib itself (src/zlib, vendored) is out of reach of a contract proof; inflate() and deflate() are replaced by their
 * ASSUMED contracts (zlib.h): they read at most avail_in bytes from next_in, write at most avail_out bytes to next_out,
 * advance the four fields accordingly and return a status.  The stubs CHECK what cjet hands them (both windows lie
 * inside live buffers) and record ghost facts (bytes at one watched position, totals), so the obligations are:
 *   - every byte cjet copies stays inside the buffer it allocated (cbmc's pointer/bounds checks in the real code);
 *   - reassembly: the fragments of a message reach inflate() concatenated in order, followed by 00 00 FF FF;
 *   - decompression: the message delivered to the application is exactly what inflate() produced, in order;
 *   - compression (unit comp.sendframe in units/ws.c, through the real caller send_frame): a frame goes out only if
 *     deflate() emitted the complete block, and carries it without the 4-byte tail;
 *   - every buffer allocated for a message is released on every path (memory-leak check), also for corrupt input.
 * Lengths are bounded by COMP_L (stated per unit); the fragment count by 3. */
#include "common.h"
#include <stdlib.h>
#include <string.h>
#include <stdbool.h>
#include "log_stub.h"
#include "zlib.h"

#ifndef COMP_L
#define COMP_L 6
#endif

/* byte-loop models of memcpy / memmove (see units/bs.c) */
void *memcpy(void *dst, const void *src, size_t n)
{
	for (size_t i = 0; i < n; i++) ((uint8_t *)dst)[i] = ((const uint8_t *)src)[i];
	return dst;
}
void *memmove(void *dst, const void *src, size_t n)
{
	if ((uintptr_t)dst <= (uintptr_t)src) { for (size_t i = 0; i < n; i++) ((uint8_t *)dst)[i] = ((const uint8_t *)src)[i]; }
	else { for (size_t i = n; i > 0; i--) ((uint8_t *)dst)[i - 1] = ((const uint8_t *)src)[i - 1]; }
	return dst;
}

/* realloc: cbmc's built-in model copies with an array primitive, after which the bytes of the 4-byte size header that
 * reassemble() keeps in its buffer are no longer constants for the symbolic executor (its growth loop then unwinds to the
 * limit, doubling a buffer each round).  Small objects are copied byte by byte (constants survive); larger ones (the
 * inflate output buffer) by the array primitive.  compression.c only ever doubles a buffer; anything else fails the
 * harness assertion below (reported as an obligation of the unit, so a changed growth policy is not silently mis-modelled). */
#ifndef COMP_REALLOC_LOOP_MAX
#define COMP_REALLOC_LOOP_MAX 64
#endif
void *realloc(void *p, size_t n)
{
	uint8_t *q = malloc(n);
	if (p == NULL || q == NULL) return q;
	/* both callers double: the old size is n/2 - a constant for the symbolic executor whenever n is (OBJECT_SIZE is not) */
	size_t o = n / 2;
	__CPROVER_assert(__CPROVER_POINTER_OFFSET(p) == 0 && o == __CPROVER_OBJECT_SIZE(p), "harness: realloc doubles a whole object");
	if (o <= COMP_REALLOC_LOOP_MAX) { for (size_t i = 0; i < o; i++) q[i] = ((const uint8_t *)p)[i]; }
	else __CPROVER_array_replace((uint8_t *)q, (const uint8_t *)p);
	free(p);
	return q;
}
#include "zlib_ghost.h"

#include "compression.c"

/* ---- application callbacks ------------------------------------------------------------------------------- */
static unsigned verif_cb_calls; static size_t verif_cb_len; static bool verif_cb_byte_ok, verif_cb_readable;
static enum websocket_callback_return cb_common(const uint8_t *msg, size_t length)
{
	verif_cb_calls++;
	verif_cb_len = length;
	verif_cb_readable = length == 0 || __CPROVER_r_ok(msg, length);
	/* the message is the output object from its first byte on (see the inflate stub: its first verif_out_total bytes are the
	 * inflated stream) */
	verif_cb_byte_ok = verif_out_contiguous && __CPROVER_POINTER_OFFSET(msg) == 0 && (verif_out_last == NULL || __CPROVER_same_object(msg, verif_out_last));
	return nondet_bool() ? WS_OK : (nondet_bool() ? WS_ERROR : WS_CLOSED);
}
static enum websocket_callback_return cb_bin_frame(struct websocket *s, uint8_t *msg, size_t length, bool last) { (void)s; (void)last; return cb_common(msg, length); }
static enum websocket_callback_return cb_txt_frame(struct websocket *s, char *msg, size_t length, bool last) { (void)s; (void)last; return cb_common((const uint8_t *)msg, length); }
static enum websocket_callback_return cb_bin_msg(struct websocket *s, uint8_t *msg, size_t length) { (void)s; return cb_common(msg, length); }
static enum websocket_callback_return cb_txt_msg(struct websocket *s, char *msg, size_t length) { (void)s; return cb_common((const uint8_t *)msg, length); }

static z_stream verif_defl; static z_stream *const verif_deflp = &verif_defl;
static void init_ws(struct websocket *ws)
{
	ws->extension_compression.accepted = true;
	/* a CONSTANT non-zero level: the entry points only test it against 0 (compression.c:192-264), and a symbolic value would
	 * make the symbolic executor merge the "not compressed" branch into every heap state */
	ws->extension_compression.compression_level = 1;
	ws->extension_compression.client_no_context_takeover = nondet_bool();
	ws->extension_compression.server_no_context_takeover = nondet_bool();
	ws->extension_compression.strm_comp = &verif_deflp;
	ws->extension_compression.strm_decomp.avail_in = 0;
	ws->extension_compression.strm_decomp.next_in = NULL;
	verif_in_watch = nondet_size();
}

/* ---- a fragmented compressed message: up to three fragments ------------------------------------------------
 * cbmc's heap model needs CONSTANT allocation sizes to stay small (a buffer of symbolic size made two reassemble()
 * calls run out of 12 GB), and the sizes here derive from the first two fragment lengths.  The harness therefore
 * splits on (len1, len2, len3): every triple within the bounds is executed as its own path with constant lengths
 * (with a symbolic length the growth loop of reassemble() is unwound to the limit, each round doubling a buffer);
 * the fragment count, text/binary, all contents and all zlib behaviours stay symbolic. */
#ifndef COMP_L1
#define COMP_L1 3
#endif
#ifndef COMP_L1MIN
#define COMP_L1MIN 0
#endif
#ifndef COMP_L2
#define COMP_L2 26
#endif
#ifndef COMP_L2MIN
#define COMP_L2MIN 0
#endif
#ifndef COMP_L3
#define COMP_L3 3
#endif
#define COMP_LMAX (COMP_L2 > COMP_L1 ? (COMP_L2 > COMP_L3 ? COMP_L2 : COMP_L3) : (COMP_L1 > COMP_L3 ? COMP_L1 : COMP_L3))
static uint8_t verif_frag[3][COMP_LMAX + 1];
static void run_frames(struct websocket *ws, bool text, unsigned n, const size_t *len)
{
	size_t total = 0; uint8_t expect = 0; bool expect_set = false;
	enum websocket_callback_return r = WS_OK;
	for (unsigned i = 0; i < 3; i++) {
		if (i >= n || r != WS_OK) break;
		if (verif_in_watch >= total && verif_in_watch < total + len[i]) { expect = verif_frag[i][verif_in_watch - total]; expect_set = true; }
		total += len[i];
		bool last = i == n - 1;
		r = text ? text_frame_received_comp(true, ws, (char *)verif_frag[i], len[i], last, cb_txt_frame)
		         : binary_frame_received_comp(true, ws, verif_frag[i], len[i], last, cb_bin_frame);
		if (!last) {
			z_stream *st = &ws->extension_compression.strm_decomp;
			__CPROVER_assert(r == WS_OK, "C19.reassemble.a-fragment-is-accepted-unless-memory-runs-out");
			if (total > 0) {
				size_t cap = read_int_from_array(st->next_in);
				__CPROVER_assert(cap == __CPROVER_OBJECT_SIZE(st->next_in) && cap >= 4 + total && st->avail_in == cap - 4 - total, "C19.reassemble.buffer-accounting-matches-the-allocation");
				if (expect_set) __CPROVER_assert(st->next_in[4 + verif_in_watch] == expect, "C19.reassemble.fragments-are-stored-in-arrival-order");
			}
		}
	}
	if (verif_inflate_calls > 0) {
		__CPROVER_assert(verif_in_total == total + 4 && verif_tail_ok, "C19.reassemble.inflate-gets-all-fragments-plus-the-deflate-tail");
		if (expect_set) __CPROVER_assert(verif_in_watch_seen && verif_in_watch_byte == expect, "C19.reassemble.inflate-gets-the-fragments-concatenated-in-order");
	}
	if (verif_cb_calls > 0)
		__CPROVER_assert(verif_cb_calls == 1 && verif_cb_len == verif_out_total && verif_cb_readable && verif_cb_byte_ok, "C19.decompress.application-gets-exactly-the-inflated-bytes");
	__CPROVER_assert(verif_cb_calls == 0 || verif_last_ret >= 0 || verif_last_ret == Z_BUF_ERROR, "C19.decompress.corrupt-stream-is-never-delivered");
	__CPROVER_assert(verif_cb_calls == 1 || r == WS_ERROR, "C19.decompress.undelivered-message-is-reported-as-error");
	VERIF_COVER(n == 3 && verif_cb_calls == 1 && len[1] == COMP_L2 && len[2] == COMP_L3, "three fragments of the largest sizes of this unit delivered");
	VERIF_COVER(n == 2 && len[1] == COMP_L2MIN && verif_cb_calls == 1, "two fragments delivered");
	VERIF_COVER(verif_inflate_calls >= 2 && verif_cb_calls == 1 && verif_out_total > 0, "output buffer grown at least once");
	VERIF_COVER(verif_inflate_calls > 0 && verif_last_ret == Z_DATA_ERROR, "corrupt stream");
}
void h_comp_frames(void)
{
	struct websocket ws;
	init_ws(&ws);
	size_t len[3]; unsigned n = nondet_uint();
	__CPROVER_assume(n >= 2 && n <= 3);
	bool text = nondet_bool();
	len[0] = nondet_size(); len[1] = nondet_size(); len[2] = nondet_size();
	__CPROVER_assume(len[0] >= COMP_L1MIN && len[0] <= COMP_L1 && len[1] >= COMP_L2MIN && len[1] <= COMP_L2 && len[2] <= COMP_L3);
	for (unsigned t = 0; t < 2; t++)
	for (unsigned k = 2; k <= 3; k++)
	for (size_t a = COMP_L1MIN; a <= COMP_L1; a++)
		for (size_t b = COMP_L2MIN; b <= COMP_L2; b++)
			for (size_t c = 0; c <= (k == 3 ? COMP_L3 : 0); c++)
				if (text == (t == 1) && n == k && len[0] == a && len[1] == b && (k == 2 || len[2] == c)) {
					/* constants from here on (text/binary and the fragment count too: a symbolic choice between the two entry
					 * points would merge two heap states).  `return` matters: without it the symbolic executor merges the
					 * state after this path into the next one */
					size_t l[3] = { a, b, c };
					run_frames(&ws, t == 1, k, l);
					return;
				}
}

/* ---- an unfragmented compressed message ---------------------------------------------------------------- */
static void run_message(struct websocket *ws, bool text, size_t len)
{
	uint8_t msg[COMP_L + 1];
	for (unsigned k = 0; k < COMP_L; k++) msg[k] = nondet_u8();
	uint8_t expect = verif_in_watch < len ? msg[verif_in_watch] : 0;
	enum websocket_callback_return r = text ? text_received_comp(true, ws, (char *)msg, len, cb_txt_msg) : binary_received_comp(true, ws, msg, len, cb_bin_msg);
	if (verif_inflate_calls > 0) {
		__CPROVER_assert(verif_in_total == len + 4 && verif_tail_ok, "C19.decompress.inflate-gets-the-payload-plus-the-deflate-tail");
		if (verif_in_watch < len) __CPROVER_assert(verif_in_watch_seen && verif_in_watch_byte == expect, "C19.decompress.inflate-gets-the-payload-unchanged");
	}
	if (verif_cb_calls > 0)
		__CPROVER_assert(verif_cb_calls == 1 && verif_cb_len == verif_out_total && verif_cb_readable && verif_cb_byte_ok, "C19.decompress.application-gets-exactly-the-inflated-bytes");
	__CPROVER_assert(verif_cb_calls == 0 || verif_last_ret >= 0 || verif_last_ret == Z_BUF_ERROR, "C19.decompress.corrupt-stream-is-never-delivered");
	__CPROVER_assert(verif_cb_calls == 1 || r == WS_ERROR, "C19.decompress.undelivered-message-is-reported-as-error");
	VERIF_COVER(verif_inflate_calls > 0 && len == 0, "empty compressed payload reaches inflate");
	VERIF_COVER(verif_cb_calls == 1 && verif_inflate_calls >= 2 && verif_out_total > 20 * len + 16 && len > 0, "output larger than the first buffer");
	VERIF_COVER(verif_inflate_calls > 0 && verif_last_ret == Z_DATA_ERROR && r == WS_ERROR, "corrupt stream rejected");
}
void h_comp_message(void)
{
	struct websocket ws;
	init_ws(&ws);
	size_t len = nondet_size();
	__CPROVER_assume(len <= COMP_L);
	bool text = nondet_bool();
	/* constant-size paths, see h_comp_frames */
	for (unsigned t = 0; t < 2; t++)
		for (size_t a = 0; a <= COMP_L; a++)
			if (text == (t == 1) && len == a) { run_message(&ws, t == 1, a); return; }
}
