/* Native demonstration against the real src/hashtable.h (order 7, uint32 keys, real hash):
 * an insertion that displaces one entry and then gives up (HASHTABLE_FULL) leaves the vacated slot holding a stale
 * copy of the displaced entry's key: a slot that no bucket references but that counts as occupied for ever.
 * Exit 1 (and a description on stdout) if, after the refused insertion and after removing every key through the
 * API, some slot still has a key; exit 0 otherwise. */
#include <stdio.h>
#include <stdint.h>
#include <stdlib.h>
#include <string.h>
void *cjet_malloc(size_t n) { return malloc(n); }
void cjet_free(void *p) { free(p); }
#include "hashtable.h"
DECLARE_HASHTABLE_UINT32(T7, 7, 1)
#define N 128u
static uint32_t next_key = 1;
static uint32_t key_for_home(uint32_t home)
{
	for (;;) { uint32_t k = next_key++; if (hs_hash32(k, 7) == (home & (N - 1))) return k; }
}
int main(void)
{
	struct hashtable_uint32_t *t = hashtable_create_T7();
	struct value_T7 v; v.vals[0] = (void *)t;
	uint32_t keys[200]; unsigned nk = 0;
	const uint32_t c = 100;
	/* slots c..c+29: one entry each in its own home; slots c+30..c+61: 32 entries of home c+30; slot c+62: own home */
	for (uint32_t b = 0; b < 30; b++) keys[nk++] = key_for_home(c + b);
	for (uint32_t b = 0; b < 32; b++) keys[nk++] = key_for_home(c + 30);
	keys[nk++] = key_for_home(c + 62);
	for (unsigned i = 0; i < nk; i++) if (hashtable_put_T7(t, keys[i], v, NULL) != HASHTABLE_SUCCESS) { printf("setup failed at %u\n", i); return 2; }
	/* slot c+63 is free; a key of home c needs it moved 32 slots closer: one move (c+62 -> c+63) succeeds, the next fails */
	uint32_t k = key_for_home(c);
	int r = hashtable_put_T7(t, k, v, NULL);
	printf("put(key of home %u) = %d (%s)\n", c, r, r == HASHTABLE_FULL ? "FULL" : "other");
	unsigned removed = 0;
	for (unsigned i = 0; i < nk; i++) if (hashtable_remove_T7(t, keys[i], NULL) == HASHTABLE_SUCCESS) removed++;
	unsigned occupied = 0, referenced = 0;
	for (uint32_t p = 0; p < N; p++) { if (t[p].key != (uint32_t)HASHTABLE_INVALIDENTRY) { occupied++; printf("slot %u still holds key %u\n", p, t[p].key); } referenced += (unsigned)__builtin_popcount(t[p].hop_info); }
	printf("removed %u of %u keys; slots still occupied: %u; bucket references: %u\n", removed, nk, occupied, referenced);
	hashtable_delete_T7(t);
	return occupied != 0 ? 1 : 0;
}
