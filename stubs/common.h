/* Common definitions for every verification wrapper TU. */
#ifndef VERIF_COMMON_H
#define VERIF_COMMON_H
#include <stdbool.h>
#include <stddef.h>
#include <stdint.h>

/* nondeterministic values of the basic types */
bool nondet_bool(void);
int nondet_int(void);
unsigned nondet_uint(void);
uint8_t nondet_u8(void);
uint16_t nondet_u16(void);
uint32_t nondet_u32(void);
uint64_t nondet_u64(void);
size_t nondet_size(void);
double nondet_double(void);
void *nondet_ptr(void);

/* every harness ends with at least one reachable cover point (vacuity guard) */
/* Cover point: an assertion that must FAIL (= the point is reachable with cond true).  The driver
 * treats a "COVER" assertion that cannot fail as a vacuity error. */
#define VERIF_COVER(cond, label) __CPROVER_assert(!(cond), "COVER " label)

#endif
