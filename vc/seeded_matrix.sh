#!/bin/bash
# Runs every seeded change in /verif/seeded against the quick check of the property it breaks (on a scratch copy of
# /repo, never on /repo itself) and writes /verif/seeded/RESULTS.md.  Patches that no longer apply because a later
# fix: commit changed the same lines use patch_ported_to_current_tree.diff when present.
cd "$(dirname "$0")/.."
out=seeded/RESULTS.md
echo "| seeded change | property | verdict of ./check <property> on the changed tree | first failing obligations |" > $out
echo "|---|---|---|---|" >> $out
for d in $(ls -d seeded/C*-* | sort); do
  id=$(basename $d); prop=${id%-*}
  patch=$d/patch.diff; [ -f $d/patch_ported_to_current_tree.diff ] && patch=$d/patch_ported_to_current_tree.diff
  tmp=$(mktemp -d /tmp/cjet-seed-XXXXXX); mkdir -p $tmp/repo $tmp/out; cp -r /repo/src /repo/cmake $tmp/repo/
  if ! (cd $tmp/repo && patch -p1 -s < /verif/$patch) >/dev/null 2>&1; then
     if true; then echo "| $id | $prop | patch does not apply to the current tree (superseded by a fix: commit) | |" >> $out; rm -rf $tmp; continue; fi
  fi
  VERIF_REPO=$tmp/repo VERIF_OUT=$tmp/out python3 vc/driver.py $prop > $tmp/log 2>/dev/null; rc=$?
  obs=$(grep -a '^VIOLATION' $tmp/log | sed 's/.*obligation=//; s/ no-failing-input-found//' | head -3 | tr '\n' ' ')
  case $rc in 0) v="MISSED (exit 0)";; 1) v="CAUGHT (exit 1)";; *) v="UNDECIDED (exit $rc)";; esac
  echo "| $id | $prop | $v | $obs |" >> $out
  rm -rf $tmp
done
