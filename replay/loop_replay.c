/* Native replayer for loop.batch: the REAL handle_events with a crafted batch under AddressSanitizer.
 * Event A's read callback deregisters and frees the object that owns event B (as handle_routing_response
 * does with the routing record and its timer); B is later in the same batch. */
#include <stdio.h>
#include <stdlib.h>
#include <sys/epoll.h>
void log_err(const char *f, ...) { (void)f; }
void log_warn(const char *f, ...) { (void)f; }
void log_info(const char *f, ...) { (void)f; }
#include "linux/eventloop_epoll.c"
static struct eventloop_epoll loop;
static struct io_event *ev_a, *ev_b;
static int b_calls;
static enum eventloop_return read_b(struct io_event *ev) { (void)ev; b_calls++; return EL_CONTINUE_LOOP; }
static enum eventloop_return read_a(struct io_event *ev)
{
	(void)ev;
	eventloop_epoll_remove(&loop, ev_b);   /* deregister B ... */
	free(ev_b);                            /* ... and release its owner */
	return EL_CONTINUE_LOOP;
}
int main(void)
{
	loop.epoll_fd = epoll_create(1);
	ev_a = calloc(1, sizeof(*ev_a)); ev_b = calloc(1, sizeof(*ev_b));
	ev_a->read_function = read_a; ev_b->read_function = read_b; ev_a->sock = 0; ev_b->sock = 1;
	struct epoll_event batch[2];
	batch[0].events = EPOLLIN; batch[0].data.ptr = ev_a;
	batch[1].events = EPOLLIN; batch[1].data.ptr = ev_b;
	printf("dispatching a batch [A, B] where A's handler releases B ...\n");
	handle_events(&loop, 2, batch);        /* ASan reports heap-use-after-free when B is dispatched */
	printf("REPRODUCED: B was dispatched %d time(s) after being deregistered and freed\n", b_calls);
	return 1;
}
