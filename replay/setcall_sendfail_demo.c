/* Native demonstration against the real sources: a routed "set" whose forwarding to the owner fails is answered with an
 * error at once - but the request stays registered in the owner's routing table with its timer armed, so the caller
 * gets a SECOND response for the same request id when the deadline passes or, as here, when the owner's connection ends.
 * Exit 1 if the caller received more than one response for its request, 0 otherwise.
 * Build: as replay/rt_reply_allocfail_demo.c (same source list, same harness, -Wl,--wrap=malloc -Wl,--wrap=calloc). */
#include "alloc_harness.h"

static const char add_request[] = "{\"id\":1,\"method\":\"add\",\"params\":{\"path\":\"demo/state\",\"value\":1}}";
static const char set_request[] = "{\"id\":\"req1\",\"method\":\"set\",\"params\":{\"path\":\"demo/state\",\"value\":2}}";
static struct test_peer owner, setter;
static int failing_send(const struct peer *p, char *rendered, size_t len) { (void)p; (void)rendered; (void)len; return -1; }

int main(void)
{
	init_parser();
	if (element_hashtable_create() != 0) return 2;
	if ((test_peer_init(&owner, "owner") != 0) || (test_peer_init(&setter, "setter") != 0)) return 2;
	feed(&owner, add_request);
	owner.peer.send_message = failing_send;      /* the owner's send path is full / its socket failed */
	setter.messages = 0;
	feed(&setter, set_request);
	printf("after the failed forwarding the caller has %u response(s): %s\n", setter.messages, setter.last);
	unsigned first = setter.messages;
	test_peer_close(&owner);                      /* ... and then the owner's connection ends */
	printf("after the owner left the caller has %u response(s): %s\n", setter.messages, setter.last);
	unsigned total = setter.messages;
	test_peer_close(&setter);
	element_hashtable_delete();
	if (first == 1 && total > 1) { printf("REPRODUCED: %u responses for one request\n", total); return 1; }
	return 0;
}
