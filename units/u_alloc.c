/* unit alloc.acct: src/alloc.c (property C07: accounted heap never exceeds the cap, accounting exact). */
#include "common.h"
#include <stdlib.h>
#include "log_stub.h"
#include "alloc.c"

#define CAP ((size_t)CONFIG_MAX_HEAPSIZE_IN_KBYTE * 1024)
void h_alloc_acct(void)
{
	allocated_memory = nondet_size();
	__CPROVER_assume(allocated_memory <= CAP);
	size_t before = allocated_memory;
	size_t size = nondet_size(), nmemb = nondet_size();
	bool use_calloc = nondet_bool();
	/* precondition derived from the call sites: request sizes are small (strings, structs, tables of a few entries) */
	__CPROVER_assume(size <= ((size_t)1 << 32) && nmemb <= ((size_t)1 << 16));
	uint8_t *ptr = use_calloc ? cjet_calloc(nmemb, size) : cjet_malloc(size);
	size_t want = use_calloc ? nmemb * size : size;
	if (ptr == NULL) {
		__CPROVER_assert(allocated_memory == before, "C07.alloc.failed-allocation-accounts-nothing");
	} else {
		__CPROVER_assert(allocated_memory == before + want + sizeof(size_t), "C07.alloc.accounting-exact");
		__CPROVER_assert(allocated_memory <= CAP, "C07.alloc.cap-respected");
		__CPROVER_assert(__CPROVER_OBJECT_SIZE(ptr) - __CPROVER_POINTER_OFFSET(ptr) >= want, "C07.alloc.block-large-enough");
		size_t gi = nondet_size();
		__CPROVER_assume(gi < want);
		if (use_calloc) __CPROVER_assert(ptr[gi] == 0, "C07.alloc.calloc-zeroes");
		__CPROVER_assert(cjet_get_alloc_size() == allocated_memory, "C07.alloc.reported-size");
		cjet_free(ptr);
		__CPROVER_assert(allocated_memory == before, "C07.alloc.free-returns-the-accounted-size");
	}
	VERIF_COVER(ptr != NULL && use_calloc && want > 8, "calloc ok");
	VERIF_COVER(ptr != NULL && !use_calloc, "malloc ok");
	VERIF_COVER(ptr == NULL && before + want + 8 <= CAP, "OS allocation failed");
	VERIF_COVER(ptr == NULL && before + want + 8 > CAP, "cap reached");
}
