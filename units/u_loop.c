/* unit loop.batch: handle_events of src/linux/eventloop_epoll.c (properties C14, C09, C11, C06).
 * A harvested batch of up to 3 readiness events over 3 registered io_events; every callback may
 * deregister (and thereby release) ANY registered event, exactly as buffered_socket_close / timer destroy do
 * through eventloop_epoll_remove.  Ghost: the registered set. */
#include "common.h"
#include <sys/epoll.h>
#include "log_stub.h"
#include "linux/eventloop_epoll.c"

int epoll_ctl(int epfd, int op, int fd, struct epoll_event *event) { (void)epfd; (void)op; (void)fd; (void)event; return 0; }
int epoll_wait(int epfd, struct epoll_event *events, int maxevents, int timeout) { (void)epfd; (void)events; (void)maxevents; (void)timeout; return -1; }
int epoll_create(int size) { (void)size; return 3; }
int close(int fd) { (void)fd; return 0; }

#define NEV 3
static struct io_event verif_ev[NEV];
static bool verif_reg[NEV];            /* ghost: event k is registered with the loop (its owner object is alive) */
static unsigned verif_rd[NEV], verif_wr[NEV], verif_er[NEV];
static bool verif_cross_removal;       /* a callback deregistered an event other than its own */
static bool verif_abort_requested;
static struct eventloop_epoll verif_loop;

static unsigned idx_of(const struct io_event *ev) { return (unsigned)(ev - verif_ev); }

static enum eventloop_return stub_cb(struct io_event *ev, unsigned *counter)
{
	unsigned k = idx_of(ev);
	__CPROVER_assert(k < NEV, "harness: event belongs to the unit");
	__CPROVER_assert(verif_reg[k], "C14.batch.dispatched-event-is-still-registered");
	counter[k]++;
	bool removed_self = false;
	for (unsigned j = 0; j < NEV; j++) {
		if (verif_reg[j] && nondet_bool()) {
			eventloop_epoll_remove(&verif_loop, &verif_ev[j]);
			verif_reg[j] = false;
			if (j == k) removed_self = true; else verif_cross_removal = true;
		}
	}
	if (removed_self) return EL_EVENT_REMOVED;
	if (nondet_bool()) { verif_abort_requested = true; return EL_ABORT_LOOP; }
	return EL_CONTINUE_LOOP;
}
static enum eventloop_return stub_read(struct io_event *ev) { return stub_cb(ev, verif_rd); }
static enum eventloop_return stub_write(struct io_event *ev) { return stub_cb(ev, verif_wr); }
static enum eventloop_return stub_error(struct io_event *ev) { return stub_cb(ev, verif_er); }

void h_loop_batch(void)
{
	struct epoll_event batch[NEV];
	int n = nondet_int();
	__CPROVER_assume(n >= 0 && n <= NEV);
	unsigned which[NEV];
	for (unsigned i = 0; i < NEV; i++) {
		verif_ev[i].read_function = stub_read; verif_ev[i].write_function = stub_write; verif_ev[i].error_function = stub_error;
		verif_reg[i] = true;
		which[i] = nondet_uint();
		__CPROVER_assume(which[i] < NEV);
		batch[i].data.ptr = &verif_ev[which[i]];
		batch[i].events = nondet_u32();
	}
	/* the kernel reports each registered descriptor at most once per batch */
	__CPROVER_assume(which[0] != which[1] && which[0] != which[2] && which[1] != which[2]);
	verif_loop.current_ev = NULL;
	enum eventloop_return r = handle_events(&verif_loop, n, batch);
	__CPROVER_assert((r == EL_ABORT_LOOP) == verif_abort_requested, "C11.batch.loop-aborts-only-on-request");
	if (!verif_abort_requested && !verif_cross_removal) {
		unsigned gi = nondet_uint();
		__CPROVER_assume(gi < (unsigned)n);
		unsigned k = which[gi];
		uint32_t fl = batch[gi].events;
		if ((fl & ~(uint32_t)(EPOLLIN | EPOLLOUT)) != 0) {
			__CPROVER_assert(verif_er[k] == 1 && verif_rd[k] == 0 && verif_wr[k] == 0, "C09.batch.error-event-reported-once");
		} else {
			__CPROVER_assert(verif_er[k] == 0 && verif_rd[k] == ((fl & EPOLLIN) ? 1u : 0u), "C09.batch.every-readable-event-of-the-batch-is-read-once");
			__CPROVER_assert(verif_wr[k] == (((fl & EPOLLOUT) && verif_reg[k]) ? 1u : 0u) || ((fl & EPOLLOUT) && !verif_reg[k] && verif_wr[k] <= 1), "C09.batch.every-writable-event-of-the-batch-is-flushed-once");
		}
	}
	VERIF_COVER(n == 3 && !verif_abort_requested && !verif_cross_removal && verif_rd[which[2]] == 1, "third event of a batch read");
	VERIF_COVER(n == 3 && verif_cross_removal, "a callback releases another event of the batch");
	VERIF_COVER(r == EL_ABORT_LOOP, "abort");
}
