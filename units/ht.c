/* units ht.*: the hopscotch table of src/hashtable.h, instantiated by the real DECLARE_HASHTABLE_*
 * macro (see contracts/ht_contracts.h) for order HT_ORDER and key kind HT_KIND.
 * Contract enforcement by hand-instrumented harness: assume(PRE); snapshot; call; assert(POST). */
#include "common.h"
#include "ht_contracts.h"

/* HT_ONLY=n restricts a harness to its n-th postcondition (lets the driver solve them in parallel) */
#ifdef HT_ONLY
#define HT_ASSERT(n, cond, tag) do { if ((n) == HT_ONLY) __CPROVER_assert(cond, tag); } while (0)
#else
#define HT_ASSERT(n, cond, tag) __CPROVER_assert(cond, tag)
#endif

void h_ht_get(void)
{
	struct ht_table T, T0;
	ht_key_t key;
	ht_val_t out;
	__CPROVER_assume(HT_PRE(&T));
	T0 = T;
	int r = hashtable_get_VT(T.s, key, &out);
	HT_ASSERT(1, HT_GET_POST_RESULT(&T0, key, r), "C17.get.found-iff-present");
	HT_ASSERT(2, HT_GET_POST_VALUE(&T0, key, r, out), "C17.get.returns-stored-value");
	HT_ASSERT(3, ht_same(&T0, &T), "C17.get.table-unchanged");
	VERIF_COVER(r == HASHTABLE_SUCCESS, "found");
	VERIF_COVER(r == HASHTABLE_SUCCESS && T.s[HT_WRAP(HT_H(key) + HT_N / 2 - 1)].key == key && HT_H(key) == HT_N - 1, "found at the far end of the add range, wrapped around the table end");
	VERIF_COVER(r != HASHTABLE_SUCCESS && T.s[HT_H(key)].hop_info != 0, "not found although its home has entries");
}

void h_ht_remove(void)
{
	struct ht_table T, T0;
	ht_key_t key, k2;
	ht_val_t out;
	ht_val_t *outp = nondet_bool() ? &out : NULL;
	__CPROVER_assume(HT_PRE(&T));
	T0 = T;
	int r = hashtable_remove_VT(T.s, key, outp);
	HT_ASSERT(1, HT_REMOVE_POST_RESULT(&T0, key, r), "C17.remove.success-iff-was-present");
	HT_ASSERT(2, HT_REMOVE_POST_VALUE(&T0, key, r, outp), "C17.remove.returns-removed-value");
	HT_ASSERT(3, HT_REMOVE_POST_VIEW(&T0, &T, key, k2), "C17.remove.view-is-old-view-minus-key");
	HT_ASSERT(4, ht_inv(&T) && ht_values_ok(&T), "C17.remove.inv-preserved");
	HT_ASSERT(5, r == HASHTABLE_SUCCESS || ht_same(&T0, &T), "C17.remove.failure-changes-nothing");
	VERIF_COVER(r == HASHTABLE_SUCCESS && outp != NULL, "removed");
	VERIF_COVER(r == HASHTABLE_SUCCESS && outp == NULL, "removed, value not wanted");
	VERIF_COVER(r != HASHTABLE_SUCCESS, "not found");
	VERIF_COVER(r == HASHTABLE_SUCCESS && k2 != key && ht_lookup(&T, k2) != HT_NONE && HT_H(k2) == HT_H(key), "a colliding key survives");
}

void h_ht_put(void)
{
	struct ht_table T, T0;
	ht_key_t key, k2;
	ht_val_t v, prev;
	ht_val_t *prevp = nondet_bool() ? &prev : NULL;
	__CPROVER_assume(HT_PRE(&T));
	__CPROVER_assume(v.vals[0] != HT_NONE);
	T0 = T;
	int r = hashtable_put_VT(T.s, key, v, prevp);
	HT_ASSERT(1, HT_PUT_POST_RESULT(&T0, key, r), "C17.put.result");
	HT_ASSERT(2, HT_PUT_POST_NOT_REFUSED(&T0, key, r), "C17.put.refused-only-when-no-slot-in-reach");
	HT_ASSERT(3, HT_PUT_POST_VIEW(&T0, &T, key, v.vals[0], r, k2), "C17.put.view-is-old-view-plus-binding");
	HT_ASSERT(4, HT_PUT_POST_PREV(&T0, key, r, prevp), "C17.put.reports-previous-value");
	HT_ASSERT(5, ht_inv(&T) && ht_values_ok(&T), "C17.put.inv-preserved");
	VERIF_COVER(r == HASHTABLE_SUCCESS && ht_lookup(&T0, key) == HT_NONE, "inserted new key");
	VERIF_COVER(r == HASHTABLE_SUCCESS && ht_lookup(&T0, key) != HT_NONE, "overwrote existing key");
	VERIF_COVER(r == HASHTABLE_FULL, "refused: add range full");
	VERIF_COVER(r == HASHTABLE_KEYINVAL, "refused: reserved key");
	VERIF_COVER(r == HASHTABLE_SUCCESS && HT_H(key) == HT_N - 1 && T0.s[HT_N - 1].key != HT_INVALID, "insert probes across the table end");
}

/* hashtable_create: establishes Inv with an empty view (allocation may fail) */
void h_ht_create(void)
{
	ht_slot_t *t = hashtable_create_VT();
	if (t != NULL) {
		struct ht_table T;
		ht_key_t k2;
		memcpy(T.s, t, sizeof(T.s));
		HT_ASSERT(1, ht_inv(&T), "C17.create.inv-established");
		HT_ASSERT(2, ht_lookup(&T, k2) == HT_NONE, "C17.create.view-empty");
		hashtable_delete_VT(t);
	}
	VERIF_COVER(t != NULL, "created");
	VERIF_COVER(t == NULL, "allocation failed");
}
