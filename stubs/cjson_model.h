/* Executable model of the cJSON entry points cjet uses (assumed contract of the vendored
 * src/json/cJSON.c, ~3 kLOC, not verified: symex on the real file did not finish).  Nodes are real
 * `struct cJSON`; behaviour follows the vendored version:
 *  - cJSON_GetObjectItem compares names case-INsensitively and returns the first match;
 *  - every creator / duplicator / AddItemToObject (key copy) may fail when verif_cj_may_fail is set;
 *    a failed AddItemToObject returns false and does NOT take ownership of the item;
 *  - cJSON_CreateNumber saturates valueint at INT_MAX / INT_MIN;
 *  - cJSON_PrintUnformatted returns some NUL-terminated heap string of 1..CJ_PRINT_MAX-1 characters;
 *  - cJSON_ParseWithOpts(value, ...) reads up to the first NUL: it asserts that a NUL exists inside the
 *    object `value` points into (the reads of a string API), and returns the harness-chosen tree. */
#ifndef VERIF_CJSON_MODEL_H
#define VERIF_CJSON_MODEL_H
#include <limits.h>
#include <stdbool.h>
#include <stdlib.h>
#include <string.h>
#include "json/cJSON.h"

#ifndef CJ_PRINT_MAX
#define CJ_PRINT_MAX 6
#endif
#ifndef CJ_STR_MAX
#define CJ_STR_MAX 24   /* longest string the units put into JSON nodes (literals of response.c included) */
#endif

bool verif_cj_may_fail;            /* allocation-failure injection on/off */
unsigned verif_cj_live_nodes;      /* ghost: nodes allocated and not yet deleted */
bool nondet_bool(void);

static void *cj_malloc(size_t n)
{
	if (verif_cj_may_fail && nondet_bool()) return NULL;
	return malloc(n);
}
static char *cj_strdup(const char *s)
{
	size_t n = strlen(s);
	char *d = cj_malloc(n + 1);
	if (d != NULL) memcpy(d, s, n + 1);
	return d;
}
static cJSON *cj_new(int type)
{
	cJSON *c = cj_malloc(sizeof(cJSON));
	if (c != NULL) {
		c->next = c->prev = c->child = NULL;
		c->type = type; c->valuestring = NULL; c->valueint = 0; c->valuedouble = 0; c->string = NULL;
		verif_cj_live_nodes++;
	}
	return c;
}
void cJSON_InitHooks(cJSON_Hooks *hooks) { (void)hooks; }
cJSON *cJSON_CreateNull(void) { return cj_new(cJSON_NULL); }
cJSON *cJSON_CreateTrue(void) { return cj_new(cJSON_True); }
cJSON *cJSON_CreateFalse(void) { return cj_new(cJSON_False); }
cJSON *cJSON_CreateObject(void) { return cj_new(cJSON_Object); }
cJSON *cJSON_CreateArray(void) { return cj_new(cJSON_Array); }
cJSON *cJSON_CreateNumber(double num)
{
	cJSON *c = cj_new(cJSON_Number);
	if (c != NULL) {
		c->valuedouble = num;
		if (num >= INT_MAX) c->valueint = INT_MAX;
		else if (num <= (double)INT_MIN) c->valueint = INT_MIN;
		else c->valueint = (int)num;
	}
	return c;
}
cJSON *cJSON_CreateString(const char *string)
{
	cJSON *c = cj_new(cJSON_String);
	if (c != NULL) {
		c->valuestring = cj_strdup(string);
		if (c->valuestring == NULL) { verif_cj_live_nodes--; free(c); return NULL; }
	}
	return c;
}
/* Delete / Duplicate are written without recursion (a chain of depth-indexed copies), so that cbmc's loop
 * bound does not multiply with a recursion bound.  Model bound: JSON nesting depth <= 4 inside the units
 * (asserted: a deeper tree fails obligation cjson-model.depth). */
#define CJ_DELETE_FN(name, childcall) \
static void name(cJSON *c) \
{ \
	while (c != NULL) { \
		cJSON *next = c->next; \
		if (c->child != NULL) { childcall; } \
		if (c->valuestring != NULL) free(c->valuestring); \
		if (c->string != NULL) free(c->string); \
		verif_cj_live_nodes--; \
		free(c); \
		c = next; \
	} \
}
CJ_DELETE_FN(cj_delete_0, __CPROVER_assert(0, "cjson-model.depth: tree deeper than the model bound"))
CJ_DELETE_FN(cj_delete_1, cj_delete_0(c->child))
CJ_DELETE_FN(cj_delete_2, cj_delete_1(c->child))
CJ_DELETE_FN(cj_delete_3, cj_delete_2(c->child))
#ifndef CJ_DEPTH
#define CJ_DEPTH 3   /* units with shallow trees lower this to keep the unrolled chain small */
#endif
#define CJ_PASTE_(a, b) a##b
#define CJ_PASTE(a, b) CJ_PASTE_(a, b)
void cJSON_Delete(cJSON *c) { CJ_PASTE(cj_delete_, CJ_DEPTH)(c); }
int cJSON_GetArraySize(const cJSON *array)
{
	int n = 0;
	if (array == NULL) return 0;
	for (const cJSON *c = array->child; c != NULL; c = c->next) n++;
	return n;
}
cJSON *cJSON_GetArrayItem(const cJSON *array, int index)
{
	if (array == NULL || index < 0) return NULL;
	cJSON *c = array->child;
	while (c != NULL && index > 0) { index--; c = c->next; }
	return c;
}
static int cj_lower(int c) { return (c >= 'A' && c <= 'Z') ? c + 32 : c; }
static bool cj_name_eq_nocase(const char *a, const char *b)
{
	if (a == NULL || b == NULL) return false;
	for (size_t i = 0;; i++) {
		if (cj_lower((unsigned char)a[i]) != cj_lower((unsigned char)b[i])) return false;
		if (a[i] == 0) return true;
	}
}
cJSON *cJSON_GetObjectItem(const cJSON *const object, const char *const string)
{
	if (object == NULL || string == NULL) return NULL;
	for (cJSON *c = object->child; c != NULL; c = c->next)
		if (c->string != NULL && cj_name_eq_nocase(c->string, string)) return c;
	return NULL;
}
cJSON_bool cJSON_AddItemToArray(cJSON *array, cJSON *item)
{
	if (array == NULL || item == NULL || array == item) return false;
	if (array->child == NULL) { array->child = item; item->prev = item; item->next = NULL; }
	else { cJSON *last = array->child->prev; last->next = item; item->prev = last; array->child->prev = item; item->next = NULL; }
	return true;
}
cJSON_bool cJSON_AddItemToObject(cJSON *object, const char *string, cJSON *item)
{
	if (object == NULL || string == NULL || item == NULL || object == item) return false;
	char *key = cj_strdup(string);
	if (key == NULL) return false;
	if (item->string != NULL) free(item->string);
	item->string = key;
	return cJSON_AddItemToArray(object, item);
}
cJSON *cJSON_AddTrueToObject(cJSON *const object, const char *const name)
{
	cJSON *t = cJSON_CreateTrue();
	if (t == NULL) return NULL;
	if (cJSON_AddItemToObject(object, name, t)) return t;
	cJSON_Delete(t);
	return NULL;
}
cJSON_bool cJSON_AddItemToArray(cJSON *array, cJSON *item);
#define CJ_DUP_FN(name, childcall) \
static cJSON *name(const cJSON *item, cJSON_bool recurse) \
{ \
	if (item == NULL) return NULL; \
	cJSON *n = cj_new(item->type); \
	if (n == NULL) return NULL; \
	n->valueint = item->valueint; n->valuedouble = item->valuedouble; \
	if (item->valuestring != NULL) { n->valuestring = cj_strdup(item->valuestring); if (n->valuestring == NULL) goto fail; } \
	if (item->string != NULL) { n->string = cj_strdup(item->string); if (n->string == NULL) goto fail; } \
	if (recurse) { \
		for (const cJSON *c = item->child; c != NULL; c = c->next) { \
			cJSON *d = childcall; \
			if (d == NULL) goto fail; \
			cJSON_AddItemToArray(n, d); \
		} \
	} \
	return n; \
fail: \
	cJSON_Delete(n); \
	return NULL; \
}
static cJSON *cj_dup_none(const cJSON *c) { (void)c; __CPROVER_assert(0, "cjson-model.depth: tree deeper than the model bound"); return NULL; }
CJ_DUP_FN(cj_dup_0, cj_dup_none(c))
CJ_DUP_FN(cj_dup_1, cj_dup_0(c, 1))
CJ_DUP_FN(cj_dup_2, cj_dup_1(c, 1))
#if CJ_DEPTH >= 2
cJSON *cJSON_Duplicate(const cJSON *item, cJSON_bool recurse) { return cj_dup_2(item, recurse); }
#else
cJSON *cJSON_Duplicate(const cJSON *item, cJSON_bool recurse) { return cj_dup_1(item, recurse); }
#endif
cJSON_bool cJSON_ReplaceItemInObject(cJSON *object, const char *string, cJSON *newitem)
{
	cJSON *old = cJSON_GetObjectItem(object, string);
	if (old == NULL || newitem == NULL) return false;
	char *key = cj_strdup(string);
	if (key == NULL) return false;
	if (newitem->string != NULL) free(newitem->string);
	newitem->string = key;
	newitem->next = old->next; newitem->prev = old->prev;
	if (newitem->next != NULL) newitem->next->prev = newitem;
	if (object->child == old) { if (object->child->prev == old) newitem->prev = newitem; object->child = newitem; }
	else { if (newitem->prev != NULL) newitem->prev->next = newitem; if (newitem->next == NULL) object->child->prev = newitem; }
	old->next = old->prev = NULL;
	cJSON_Delete(old);
	return true;
}
const cJSON *verif_cj_last_printed;  /* the tree most recently rendered (units inspect it in their send stubs) */
char *cJSON_PrintUnformatted(const cJSON *item)
{
	verif_cj_last_printed = item;
	char *s = cj_malloc(CJ_PRINT_MAX);
	if (s == NULL) return NULL;
	size_t n;
	__CPROVER_assume(n >= 1 && n < CJ_PRINT_MAX);
	for (size_t i = 0; i < CJ_PRINT_MAX; i++) if (i < n) __CPROVER_assume(s[i] != 0);
	s[n] = 0;
	return s;
}
char *cJSON_Print(const cJSON *item) { return cJSON_PrintUnformatted(item); }
void cJSON_free(void *object) { free(object); }
#endif
