/* units rpc.*: src/parse.c (property C02: one response per request with an id, none for notifications
 * and incoming responses, batch members in order).  The twelve method handlers and the router are
 * recording stubs with the assumed contract "returns NULL or a fresh response object it no longer owns";
 * JSON library: executable model. */
#include "common.h"
#include <stdlib.h>
#include <string.h>
#include "log_stub.h"
#include "cjson_model.h"
#include "parse.c"

void log_peer_err(const struct peer *p, const char *fmt, ...) { (void)p; (void)fmt; }
void *cjet_malloc(size_t n) { return malloc(n); }
void cjet_free(void *p) { free(p); }

enum { H_NONE, H_CHANGE, H_SET, H_CALL, H_ADD, H_REMOVE, H_FETCH, H_UNFETCH, H_GET, H_CONFIG, H_INFO, H_AUTH, H_PASSWD, H_UNKNOWN, H_ROUTE_RESULT, H_ROUTE_ERROR, H_ERRRESP };
#define LOG_MAX 4
static unsigned verif_calls; static int verif_kind[LOG_MAX]; static const cJSON *verif_req[LOG_MAX]; static const struct peer *verif_hpeer[LOG_MAX];
static unsigned verif_sends; static const struct peer *verif_send_peer; static int verif_send_ret; static int verif_route_ret;
static unsigned verif_responses_made;

static cJSON *handler(int kind, const cJSON *request, const struct peer *p)
{
	if (verif_calls < LOG_MAX) { verif_kind[verif_calls] = kind; verif_req[verif_calls] = request; verif_hpeer[verif_calls] = p; }
	verif_calls++;
	if (nondet_bool()) return NULL;
	cJSON *r = cJSON_CreateObject();
	if (r != NULL) verif_responses_made++;
	return r;
}
cJSON *change_state(const struct peer *p, const cJSON *request) { return handler(H_CHANGE, request, p); }
cJSON *set_or_call(const struct peer *p, const cJSON *request, enum type what) { return handler(what == STATE ? H_SET : H_CALL, request, p); }
cJSON *add_element_to_peer(struct peer *p, const cJSON *request) { return handler(H_ADD, request, p); }
cJSON *remove_element_from_peer(const struct peer *p, const cJSON *request) { return handler(H_REMOVE, request, p); }
int add_fetch_to_peer(struct peer *p, const cJSON *request, struct fetch **f, cJSON **response) { *f = NULL; *response = handler(H_FETCH, request, p); return -1; }
cJSON *add_fetch_to_states(const struct peer *p, const cJSON *request, struct fetch *f) { (void)f; return handler(H_FETCH, request, p); }
cJSON *remove_fetch_from_peer(const struct peer *p, const cJSON *request) { return handler(H_UNFETCH, request, p); }
cJSON *get_elements(const cJSON *request, const struct peer *p) { return handler(H_GET, request, p); }
cJSON *config_peer(struct peer *p, const cJSON *request) { return handler(H_CONFIG, request, p); }
cJSON *handle_info(const cJSON *request, const struct peer *p) { return handler(H_INFO, request, p); }
cJSON *handle_authentication(struct peer *p, const cJSON *request) { return handler(H_AUTH, request, p); }
cJSON *handle_change_password(const struct peer *p, const cJSON *request) { return handler(H_PASSWD, request, p); }
cJSON *create_error_response_from_request(const struct peer *p, const cJSON *request, int code, const char *tag, const char *reason)
{
	(void)tag; (void)reason;
	int kind = code == METHOD_NOT_FOUND ? H_UNKNOWN : H_ERRRESP;
	if (verif_calls < LOG_MAX) { verif_kind[verif_calls] = kind; verif_req[verif_calls] = request; verif_hpeer[verif_calls] = p; }
	verif_calls++;
	/* the real builder answers only requests that carry an id (proved in resp.from_request) */
	if (cJSON_GetObjectItem(request, "id") == NULL) return NULL;
	cJSON *r = cJSON_CreateObject();
	if (r != NULL) verif_responses_made++;
	return r;
}
int handle_routing_response(const cJSON *json_rpc, const cJSON *response, const char *result_type, struct peer *p)
{
	(void)response;
	if (verif_calls < LOG_MAX) { verif_kind[verif_calls] = strcmp(result_type, "result") == 0 ? H_ROUTE_RESULT : H_ROUTE_ERROR; verif_req[verif_calls] = json_rpc; verif_hpeer[verif_calls] = p; }
	verif_calls++;
	return verif_route_ret;
}
static int stub_send(const struct peer *p, char *rendered, size_t len)
{
	__CPROVER_assert(rendered != NULL && strlen(rendered) == len, "C02.dispatch.rendered-length-matches");
	verif_sends++; verif_send_peer = p;
	return verif_send_ret;
}

static const char *const verif_methods[14] = {"", "change", "set", "call", "add", "remove", "fetch", "unfetch", "get", "config", "info", "authenticate", "passwd", "bogus"};
static cJSON verif_m_node[3], verif_id_node[3], verif_res_node[3], verif_err_node[3];
static char verif_idstr[3][2];

/* an arbitrary JSON-RPC object: optional method (string naming one of the 12 methods or an unknown one, or a
 * non-string), optional id, optional result, optional error; members in this order */
static int build_request(cJSON *req, unsigned slot, bool *has_id, bool *has_result, bool *has_error, bool *method_is_string)
{
	cJSON *last = NULL;
	req->type = cJSON_Object; req->child = NULL; req->next = req->prev = NULL; req->string = NULL; req->valuestring = NULL;
	int kind = H_NONE;
#define LINK(node, name) do { (node)->string = (char *)(name); (node)->next = NULL; (node)->child = NULL; if (last) last->next = (node); else req->child = (node); last = (node); } while (0)
	if (nondet_bool()) {
		cJSON *m = &verif_m_node[slot];
		*method_is_string = nondet_bool();
		unsigned k = nondet_uint();
		__CPROVER_assume(k >= 1 && k <= 13);
		m->type = *method_is_string ? cJSON_String : cJSON_Number;
		m->valuestring = (char *)verif_methods[k];
		kind = (int)k;
		LINK(m, "method");
	}
	*has_id = nondet_bool();
	if (*has_id) { cJSON *i = &verif_id_node[slot]; i->type = nondet_bool() ? cJSON_String : cJSON_Number; verif_idstr[slot][0] = 'a'; verif_idstr[slot][1] = 0; i->valuestring = verif_idstr[slot]; i->valuedouble = 1; i->valueint = 1; LINK(i, "id"); }
	*has_result = nondet_bool();
	if (*has_result) { cJSON *r = &verif_res_node[slot]; r->type = cJSON_True; r->valuestring = NULL; LINK(r, "result"); }
	*has_error = nondet_bool();
	if (*has_error) { cJSON *e = &verif_err_node[slot]; e->type = cJSON_Object; e->valuestring = NULL; LINK(e, "error"); }
	return kind;
}

void h_rpc_dispatch(void)
{
	struct peer p;
	p.send_message = stub_send;
	cJSON req;
	bool has_id, has_result, has_error, mstr = false;
	int kind = build_request(&req, 0, &has_id, &has_result, &has_error, &mstr);
	verif_send_ret = nondet_bool() ? 0 : -1;
	verif_route_ret = nondet_bool() ? 0 : -1;
	int r = parse_json_rpc(&req, &p);
	__CPROVER_assert(verif_calls == 1 && verif_req[0] == &req && verif_hpeer[0] == &p, "C02.dispatch.exactly-one-handler-per-request-object");
	if (kind != H_NONE && mstr)
		__CPROVER_assert(verif_kind[0] == kind, "C02.dispatch.method-name-selects-its-handler");
	else if (kind != H_NONE)
		__CPROVER_assert(verif_kind[0] == H_ERRRESP, "C02.dispatch.non-string-method-is-an-invalid-request");
	else if (has_result)
		__CPROVER_assert(verif_kind[0] == H_ROUTE_RESULT && verif_sends == 0 && r == verif_route_ret, "C02.dispatch.incoming-result-is-routed-never-answered");
	else if (has_error)
		__CPROVER_assert(verif_kind[0] == H_ROUTE_ERROR && verif_sends == 0 && r == verif_route_ret, "C02.dispatch.incoming-error-is-routed-never-answered");
	else
		__CPROVER_assert(verif_kind[0] == H_ERRRESP, "C02.dispatch.neither-request-nor-response-is-invalid");
	__CPROVER_assert(verif_sends == verif_responses_made && verif_sends <= 1, "C02.dispatch.each-built-response-is-sent-exactly-once");
	__CPROVER_assert(verif_sends == 0 || verif_send_peer == &p, "C02.dispatch.response-goes-to-the-requester-only");
	__CPROVER_assert(verif_cj_live_nodes == 0, "C02.dispatch.response-deleted-after-sending");
	if (!has_id && (kind == H_UNKNOWN || (kind != H_NONE && !mstr) || (kind == H_NONE && !has_result && !has_error)))
		__CPROVER_assert(verif_sends == 0, "C02.dispatch.notification-errors-are-not-answered");
	VERIF_COVER(kind == H_PASSWD && mstr && verif_sends == 1, "passwd answered");
	VERIF_COVER(kind == H_UNKNOWN && mstr && has_id && verif_sends == 1, "unknown method answered with an error");
	VERIF_COVER(kind == H_NONE && has_result, "incoming result");
	VERIF_COVER(kind == H_NONE && !has_result && has_error, "incoming error");
}

/* batch: members are processed in order, as if sent one by one; processing stops at the first failure */
void h_rpc_batch(void)
{
	struct peer p;
	p.send_message = stub_send;
	cJSON arr, item[3];
	unsigned n = nondet_uint();
#ifndef RPC_BATCH_MAX
#define RPC_BATCH_MAX 3
#endif
	__CPROVER_assume(n <= RPC_BATCH_MAX);
	bool isobj[3];
	static cJSON mnode[3];
	for (unsigned i = 0; i < 3; i++) {
		/* each member is the minimal request {"method":"info"} (no id) or not an object at all */
		mnode[i].type = cJSON_String; mnode[i].valuestring = (char *)"info"; mnode[i].string = (char *)"method"; mnode[i].next = NULL; mnode[i].child = NULL;
		item[i].type = cJSON_Object; item[i].child = &mnode[i]; item[i].string = NULL; item[i].valuestring = NULL; item[i].prev = NULL;
		isobj[i] = nondet_bool();
		if (!isobj[i]) item[i].type = cJSON_Number;
		item[i].next = i + 1 < n ? &item[i + 1] : NULL;
	}
	arr.type = cJSON_Array; arr.child = n > 0 ? &item[0] : NULL; arr.next = NULL; arr.string = NULL; arr.valuestring = NULL;
	verif_send_ret = 0;
	verif_route_ret = 0;
	int r = parse_json_array(&arr, &p);
	unsigned expect_calls = 0; int expect_r = 0;
	for (unsigned i = 0; i < n; i++) { if (!isobj[i]) { expect_r = -1; break; } expect_calls++; }
	__CPROVER_assert(verif_calls == expect_calls && r == expect_r, "C02.batch.members-processed-until-the-first-non-object");
	unsigned gi = nondet_uint();
	__CPROVER_assume(gi < expect_calls && gi < LOG_MAX);
	__CPROVER_assert(verif_req[gi] == &item[gi] && verif_hpeer[gi] == &p, "C02.batch.members-processed-in-order");
	VERIF_COVER(n == RPC_BATCH_MAX && expect_calls == RPC_BATCH_MAX, "all members processed");
	VERIF_COVER(n == 2 && expect_calls == 1, "second member is not an object");
}
