/* Native demonstration against the real sources: an "info" request is handled while ONE allocation made while the answer
 * is built fails (every allocation of the request in turn).  The answer may be lost, but an answer that is sent must be
 * complete (name, version, protocolVersion, features.batches / authentication / fetch) and nothing may leak.
 * Exit 1 if an incomplete answer is sent or the accounting does not return to its baseline.
 * Build: as replay/rt_reply_allocfail_demo.c (same source list, same harness, -Wl,--wrap=malloc -Wl,--wrap=calloc). */
#include "alloc_harness.h"

static const char info_request[] = "{\"id\":7,\"method\":\"info\"}";
static struct test_peer client;

int main(void)
{
	init_parser();
	if (element_hashtable_create() != 0) return 2;
	if (test_peer_init(&client, "client") != 0) return 2;
	const size_t baseline = cjet_get_alloc_size();
	for (long n = 0; n < 60; n++) {
		client.messages = 0; client.last[0] = '\0';
		arm(n);
		feed(&client, info_request);
		disarm();
		CHECK(client.messages <= 1, "fault #%ld: %d answers", n, (int)client.messages);
		if (client.messages > 0) {
			cJSON *m = cJSON_Parse(client.last);
			const cJSON *r = m ? cJSON_GetObjectItem(m, "result") : NULL;
			const cJSON *f = r ? cJSON_GetObjectItem(r, "features") : NULL;
			bool is_error = m != NULL && cJSON_GetObjectItem(m, "error") != NULL;
			bool complete = r != NULL && f != NULL && cJSON_GetObjectItem(r, "name") != NULL && cJSON_GetObjectItem(r, "version") != NULL &&
			                cJSON_GetObjectItem(r, "protocolVersion") != NULL && cJSON_GetObjectItem(f, "batches") != NULL &&
			                cJSON_GetObjectItem(f, "authentication") != NULL && cJSON_GetObjectItem(f, "fetch") != NULL;
			CHECK(complete || is_error, "fault #%ld: incomplete info answer sent: %s", n, client.last);
			cJSON_Delete(m);
		}
		CHECK(cjet_get_alloc_size() == baseline, "fault #%ld: accounting did not return to baseline (%zu != %zu)", n, cjet_get_alloc_size(), baseline);
		if (errors != 0) break;
	}
	test_peer_close(&client);
	element_hashtable_delete();
	if (errors != 0) { fprintf(stderr, "REPRODUCED: %d check(s) failed\n", errors); return 1; }
	printf("ok (%ld faults injected)\n", faults_injected);
	return 0;
}
