#!/bin/bash
# runs every claimed check (quick tier by default) one after the other; prints exit code and wall time
tier=${1:-quick}
cd "$(dirname "$0")/.."
for p in $(python3 -c "import json;print(' '.join(c['property_id'] for c in json.load(open('MANIFEST.json'))['checks']))"); do
  s=$(date +%s); ./check $p --tier $tier > /tmp/all_$p.log 2>&1; rc=$?; e=$(date +%s)
  echo "$p rc=$rc $((e-s))s $(grep -a -c KNOWN-FINDING /tmp/all_$p.log) known $(grep -a -c '^VIOLATION' /tmp/all_$p.log) violations"
done
