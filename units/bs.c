/* units bs.*: src/buffered_socket.c (properties C10 write path, C09 read path) at a small buffer
 * configuration (cfg small8: CONFIG_MAX_MESSAGE_SIZE = CONFIG_MAX_WRITE_BUFFER_SIZE = 8) so that
 * every loop is bounded by a buffer size and CBMC's built-in memcpy/memmove stay cheap.
 *
 * Ghost kernel (assumed contract of the OS, the trusted base of these units):
 *   socket_writev_with_prefix: for a non-empty gather list the kernel accepts any prefix of >= 1 bytes
 *       (appended to the ghost wire) or fails with -1 and errno EAGAIN/EWOULDBLOCK or any other errno;
 *   socket_read: delivers any non-empty prefix of the not yet delivered part of the ghost input stream
 *       that fits, or 0 (peer closed), or -1 with EAGAIN or another errno.                         */
#include "common.h"
#include <errno.h>
#include <stdlib.h>
#include <string.h>
#include "log_stub.h"
/* assumed models of memcpy / memmove (byte loops; cbmc's built-ins are far more expensive for symbolic
 * lengths inside struct-embedded buffers).  memmove: correct for overlapping regions. */
void *memcpy(void *dst, const void *src, size_t n)
{
	for (size_t i = 0; i < n; i++) ((uint8_t *)dst)[i] = ((const uint8_t *)src)[i];
	return dst;
}
void *memmove(void *dst, const void *src, size_t n)
{
	if ((uintptr_t)dst <= (uintptr_t)src) { for (size_t i = 0; i < n; i++) ((uint8_t *)dst)[i] = ((const uint8_t *)src)[i]; }
	else { for (size_t i = n; i > 0; i--) ((uint8_t *)dst)[i - 1] = ((const uint8_t *)src)[i - 1]; }
	return dst;
}
#include "buffered_socket.c"

/* ghost wire: only its length and the byte at ONE ghost position (verif_watch, chosen by the harness
 * before the call) are tracked - universal generalisation over the position, no byte array needed */
static size_t verif_wire_len;      /* number of bytes the kernel accepted so far */
static size_t verif_watch;         /* ghost logical stream position */
static uint8_t verif_watch_byte;   /* the byte the kernel saw at that position */
static unsigned verif_watch_seen;  /* how often that position was handed to the kernel (must be <= 1) */
static unsigned verif_wr_calls;
static int verif_errno;
static unsigned verif_error_cb;
static bool verif_hard_error;      /* the kernel reported an errno other than EAGAIN/EWOULDBLOCK: the connection is dead */

enum cjet_system_error get_socket_error(void) { return verif_errno; }
const char *get_socket_error_msg(enum cjet_system_error err) { (void)err; return "error"; }

cjet_ssize_t socket_writev_with_prefix(socket_type sock, void *buf, size_t len, struct socket_io_vector *io_vec, unsigned int count)
{
	(void)sock;
	__CPROVER_assert(count <= 2, "harness bound: at most two gather buffers");
	size_t l0 = count > 0 ? io_vec[0].iov_len : 0, l1 = count > 1 ? io_vec[1].iov_len : 0;
	size_t total = len + l0 + l1;
	if (total == 0) return 0;
	verif_wr_calls++;
	__CPROVER_assert(verif_wr_calls <= 2 * CONFIG_MAX_WRITE_BUFFER_SIZE + 4, "C10.no-spinning-on-a-slow-reader");
	if (nondet_bool()) {
		verif_errno = nondet_bool() ? EAGAIN : (nondet_bool() ? EWOULDBLOCK : EPIPE);
		if (verif_errno == EPIPE) verif_hard_error = true;
		return -1;
	}
	size_t accept = nondet_size();
	__CPROVER_assume(accept >= 1 && accept <= total);
	if (verif_watch >= verif_wire_len && verif_watch < verif_wire_len + accept) {
		size_t k = verif_watch - verif_wire_len;
		verif_watch_byte = k < len ? ((const uint8_t *)buf)[k] : (k - len < l0 ? ((const uint8_t *)io_vec[0].iov_base)[k - len] : ((const uint8_t *)io_vec[1].iov_base)[k - len - l0]);
		verif_watch_seen++;
	}
	verif_wire_len += accept;
	return (cjet_ssize_t)accept;
}

static void stub_error(void *ctx) { (void)ctx; verif_error_cb++; }

/* the logical outgoing stream = wire ++ pending write buffer; byte at logical position pos */
static uint8_t stream_at(const struct buffered_socket *bs, size_t pos)
{
	__CPROVER_assert(pos == verif_watch, "harness: only the watched position is observable");
	return pos < verif_wire_len ? verif_watch_byte : bs->write_buffer[pos - verif_wire_len];
}

#ifndef BS_IOV_MAX
#define BS_IOV_MAX 6
#endif
/* ---- bs.writev -------------------------------------------------------------------------------- */
void h_bs_writev(void)
{
	struct buffered_socket bs;
	uint8_t a[BS_IOV_MAX], b[BS_IOV_MAX], pending0[CONFIG_MAX_WRITE_BUFFER_SIZE];
	struct socket_io_vector iov[2];
	unsigned count = nondet_uint();
	__CPROVER_assume(count <= 2);
	iov[0].iov_base = a; iov[0].iov_len = nondet_size();
	iov[1].iov_base = b; iov[1].iov_len = nondet_size();
	__CPROVER_assume(iov[0].iov_len <= BS_IOV_MAX && iov[1].iov_len <= BS_IOV_MAX);
	__CPROVER_assume(bs.to_write <= CONFIG_MAX_WRITE_BUFFER_SIZE);   /* representation invariant */
	bs.error = stub_error;
	size_t pend0 = bs.to_write;
	memcpy(pending0, bs.write_buffer, sizeof(pending0));
	size_t flen = (count > 0 ? iov[0].iov_len : 0) + (count > 1 ? iov[1].iov_len : 0);
	size_t pos = nondet_size();   /* ghost index into the expected stream pending0 ++ frame */
	verif_watch = pos;

	int r = buffered_socket_writev(&bs, iov, count);

	__CPROVER_assert(bs.to_write <= CONFIG_MAX_WRITE_BUFFER_SIZE, "C10.writev.pending-fits-buffer");
	size_t out_len = verif_wire_len + bs.to_write;
	size_t l0 = count > 0 ? iov[0].iov_len : 0;
	if (r == 0) {
		__CPROVER_assert(out_len == pend0 + flen, "C10.writev.accepted-frame-sent-or-pending-completely");
		if (out_len == pend0 + flen && pos < out_len && bs.to_write <= CONFIG_MAX_WRITE_BUFFER_SIZE) {
			uint8_t expect = pos < pend0 ? pending0[pos] : (pos - pend0 < l0 ? a[pos - pend0] : b[pos - pend0 - l0]);
			__CPROVER_assert(stream_at(&bs, pos) == expect, "C10.writev.bytes-in-generation-order");
			__CPROVER_assert(verif_watch_seen <= 1, "C10.writev.no-byte-sent-twice");
		}
	} else {
		__CPROVER_assert(r == -1, "C10.writev.result-code");
		/* statement: a frame that cannot be completed is refused before any of its bytes is queued or sent, or the
		 * connection is closed.  A hard socket error means the connection is dead (the event loop reports it);
		 * without one this layer does not close anything, so the refusal must leave nothing of the frame behind. */
		__CPROVER_assert(verif_hard_error || out_len == pend0, "C10.writev.refused-frame-leaves-no-byte-behind");
		if (!verif_hard_error && out_len == pend0 && pos < pend0 && bs.to_write <= CONFIG_MAX_WRITE_BUFFER_SIZE)
			__CPROVER_assert(stream_at(&bs, pos) == pending0[pos], "C10.writev.refusal-keeps-older-bytes-in-order");
	}
	VERIF_COVER(r == 0 && bs.to_write > 0 && verif_wire_len > pend0, "partial write, rest buffered");
	VERIF_COVER(r == 0 && bs.to_write == 0 && flen > 0 && pend0 > 0, "everything sent");
	VERIF_COVER(r == -1 && !verif_hard_error, "refused without a socket error");
	VERIF_COVER(r == -1 && verif_hard_error, "socket error");
	VERIF_COVER(r == 0 && verif_wr_calls >= 3, "several short writes");
}

/* ---- bs.flush: writability event ---------------------------------------------------------------- */
void h_bs_flush(void)
{
	struct buffered_socket bs;
	uint8_t pending0[CONFIG_MAX_WRITE_BUFFER_SIZE];
	__CPROVER_assume(bs.to_write <= CONFIG_MAX_WRITE_BUFFER_SIZE);
	bs.error = stub_error;
	size_t pend0 = bs.to_write;
	memcpy(pending0, bs.write_buffer, sizeof(pending0));
	size_t pos = nondet_size();
	verif_watch = pos;
	enum eventloop_return r = write_function(&bs.ev);
	__CPROVER_assert(r == EL_CONTINUE_LOOP, "C10.flush.loop-continues");
	__CPROVER_assert(bs.to_write <= CONFIG_MAX_WRITE_BUFFER_SIZE, "C10.flush.pending-fits-buffer");
	if (verif_error_cb == 0) {
		__CPROVER_assert(verif_wire_len + bs.to_write == pend0, "C10.flush.nothing-lost-nothing-duplicated");
		if (verif_wire_len + bs.to_write == pend0 && pos < pend0 && bs.to_write <= CONFIG_MAX_WRITE_BUFFER_SIZE) {
			__CPROVER_assert(stream_at(&bs, pos) == pending0[pos], "C10.flush.bytes-in-order");
			__CPROVER_assert(verif_watch_seen <= 1, "C10.flush.no-byte-sent-twice");
		}
	} else {
		__CPROVER_assert(verif_error_cb == 1, "C10.flush.error-reported-once");
	}
	VERIF_COVER(verif_error_cb == 1, "socket error");
	VERIF_COVER(verif_error_cb == 0 && bs.to_write > 0 && verif_wire_len > 0, "would block after partial flush");
	VERIF_COVER(verif_error_cb == 0 && bs.to_write == 0 && pend0 == CONFIG_MAX_WRITE_BUFFER_SIZE, "full buffer flushed");
}

/* ---- C09: the reader ------------------------------------------------------------------------------ */
#ifndef IN_MAX
#define IN_MAX 24
#endif
static uint8_t verif_in[IN_MAX];   /* the connection's input byte stream */
static size_t verif_in_len;        /* its total length */
static size_t verif_delivered;     /* bytes the kernel has handed over so far */
static size_t verif_consumed;      /* bytes handed to callbacks / skipped so far */
static bool verif_eof_allowed;
static bool verif_read_hard_error;  /* the kernel reported a read error other than EAGAIN */

cjet_ssize_t socket_read(socket_type sock, void *buf, size_t count)
{
	(void)sock;
	__CPROVER_assert(count >= 1, "C09.read.never-asks-for-zero-bytes");
	if (nondet_bool()) { verif_errno = nondet_bool() ? EAGAIN : ECONNRESET; if (verif_errno == ECONNRESET) verif_read_hard_error = true; return -1; }
	size_t rest = verif_in_len - verif_delivered;
	if (rest == 0) return nondet_bool() ? 0 : (verif_errno = EAGAIN, -1);
	size_t n = nondet_size();
	__CPROVER_assume(n >= 1 && n <= rest && n <= count);
	memcpy(buf, verif_in + verif_delivered, n);
	verif_delivered += n;
	return (cjet_ssize_t)n;
}

/* RD(bs): the unread part of the read buffer is exactly stream[consumed, delivered) */
static bool rd_inv(const struct buffered_socket *bs, size_t i)
{
	if (!(bs->read_ptr >= bs->read_buffer && bs->read_ptr <= bs->write_ptr && bs->write_ptr <= bs->read_buffer + CONFIG_MAX_MESSAGE_SIZE)) return false;
	if ((size_t)(bs->write_ptr - bs->read_ptr) != verif_delivered - verif_consumed) return false;
	if (i < (size_t)(bs->write_ptr - bs->read_ptr) && bs->read_ptr[i] != verif_in[verif_consumed + i]) return false;
	return true;
}
static void arbitrary_reader_state(struct buffered_socket *bs)
{
	size_t rp = nondet_size(), wp = nondet_size();
	for (size_t i = 0; i < IN_MAX; i++) verif_in[i] = nondet_u8();
	verif_in_len = nondet_size(); verif_delivered = nondet_size(); verif_consumed = nondet_size();
	__CPROVER_assume(rp <= wp && wp <= CONFIG_MAX_MESSAGE_SIZE);
	bs->read_ptr = bs->read_buffer + rp;
	bs->write_ptr = bs->read_buffer + wp;
	__CPROVER_assume(verif_in_len <= IN_MAX && verif_consumed <= verif_delivered && verif_delivered <= verif_in_len);
	__CPROVER_assume(verif_delivered - verif_consumed == wp - rp);
	for (size_t i = 0; i < CONFIG_MAX_MESSAGE_SIZE; i++)
		if (i < wp - rp) __CPROVER_assume(bs->read_buffer[rp + i] == verif_in[verif_consumed + i]);
}

void h_bs_read_exactly(void)
{
	struct buffered_socket bs;
	arbitrary_reader_state(&bs);
	union buffered_socket_reader_context ctx;
	ctx.num = nondet_size();
	__CPROVER_assume(ctx.num >= 1 && ctx.num <= 2 * CONFIG_MAX_MESSAGE_SIZE);
	size_t consumed0 = verif_consumed, j = nondet_size(), gi = nondet_size();
	uint8_t *out = NULL;
	cjet_ssize_t r = get_read_ptr(&bs, ctx, &out);
	if (r > 0) {
		__CPROVER_assert(ctx.num <= CONFIG_MAX_MESSAGE_SIZE, "C09.exact.oversized-request-never-succeeds");
		__CPROVER_assert((size_t)r == ctx.num, "C09.exact.returns-exactly-the-requested-count");
		verif_consumed += ctx.num;
		__CPROVER_assume(j < ctx.num);
		__CPROVER_assert(out[j] == verif_in[consumed0 + j], "C09.exact.hands-out-the-next-stream-bytes-whatever-the-chunking");
	} else {
		__CPROVER_assert(r == BS_PEER_CLOSED || r == BS_IO_WOULD_BLOCK || r == BS_IO_ERROR || r == BS_IO_TOOMUCHDATA, "C09.exact.result-code");
		__CPROVER_assert(r != BS_IO_TOOMUCHDATA || ctx.num > CONFIG_MAX_MESSAGE_SIZE, "C09.exact.too-much-only-above-the-buffer-size");
	}
	__CPROVER_assert(rd_inv(&bs, gi), "C09.exact.buffer-still-mirrors-the-stream");
	VERIF_COVER(r > 0 && ctx.num == CONFIG_MAX_MESSAGE_SIZE && consumed0 > 1, "full-buffer message after compaction");
	VERIF_COVER(r == BS_IO_WOULD_BLOCK && verif_delivered > consumed0 + 1, "would block with a partial message buffered");
	VERIF_COVER(r == BS_IO_TOOMUCHDATA, "too much data");
}

/* assumed model of memmem (glibc): first occurrence, or NULL; an empty needle matches at the start */
void *memmem(const void *haystack, size_t hlen, const void *needle, size_t nlen)
{
	if (nlen > hlen) return NULL;
	for (size_t i = 0; i + nlen <= hlen; i++) {
		size_t k = 0;
		while (k < nlen && ((const uint8_t *)haystack)[i + k] == ((const uint8_t *)needle)[k]) k++;
		if (k == nlen) return (uint8_t *)haystack + i;
	}
	return NULL;
}
#include "linux/jet_string.c"
char *strcasestr(const char *a, const char *b) { (void)a; (void)b; return NULL; } /* unused here */

void h_bs_read_until(void)
{
	struct buffered_socket bs;
	arbitrary_reader_state(&bs);
	union buffered_socket_reader_context ctx;
	ctx.ptr = "\r\n";
	size_t consumed0 = verif_consumed, j = nondet_size(), gi = nondet_size(), e = nondet_size();
	uint8_t *out = NULL;
	cjet_ssize_t r = internal_read_until(&bs, ctx, &out);
	if (r > 0) {
		size_t n = (size_t)r;
		verif_consumed += n;
		__CPROVER_assert(n >= 2 && out[n - 2] == '\r' && out[n - 1] == '\n', "C09.until.ends-with-the-delimiter");
		__CPROVER_assume(j < n);
		__CPROVER_assert(out[j] == verif_in[consumed0 + j], "C09.until.hands-out-the-next-stream-bytes");
		__CPROVER_assume(e <= IN_MAX && e + 3 <= n);
		__CPROVER_assert(!(out[e] == '\r' && out[e + 1] == '\n'), "C09.until.stops-at-the-first-delimiter");
	} else {
		__CPROVER_assert(r == BS_PEER_CLOSED || r == BS_IO_WOULD_BLOCK || r == BS_IO_ERROR || r == BS_IO_TOOMUCHDATA, "C09.until.result-code");
		/* a line is refused as too long only when the whole read buffer is filled with unread bytes (and holds no delimiter) */
		__CPROVER_assert(r != BS_IO_TOOMUCHDATA || verif_delivered - verif_consumed == CONFIG_MAX_MESSAGE_SIZE, "C09.until.too-much-only-when-the-buffer-is-full");
	}
	__CPROVER_assert(rd_inv(&bs, gi), "C09.until.buffer-still-mirrors-the-stream");
	VERIF_COVER(r == 3 && consumed0 > 1, "line of 3 bytes");
	VERIF_COVER(r == BS_IO_TOOMUCHDATA, "buffer full without delimiter");
	VERIF_COVER(r == BS_IO_WOULD_BLOCK, "would block");
}

/* ---- bs.start: the first read request on a connection runs the read loop at once (C09/C13/C05) ---------------
 * buffered_socket_read_until / read_exactly on a fresh socket: register with the loop, then read until the kernel
 * would block.  Whatever ends the loop other than would-block / peer-closed / the callback closing the connection
 * must be reported through the error callback, exactly once; after the callback reports BS_CLOSED the socket
 * object is not touched again. */
static unsigned verif_cb_calls; static bool verif_cb_closed; static enum eventloop_return verif_add_ret;
static struct buffered_socket *verif_bs;
static enum bs_read_callback_return stub_read_cb(void *ctx, uint8_t *buf, size_t len)
{
	(void)ctx; (void)buf;
	__CPROVER_assert(!verif_cb_closed, "C05.start.no-callback-after-the-connection-was-closed");
	verif_cb_calls++;
	verif_consumed += len;
	if (len == 0 || nondet_bool()) { verif_cb_closed = true; return BS_CLOSED; }
	return BS_OK;
}
static enum eventloop_return stub_add(const void *this_ptr, const struct io_event *ev) { (void)this_ptr; (void)ev; return verif_add_ret; }
static void stub_remove(void *this_ptr, const struct io_event *ev) { (void)this_ptr; (void)ev; }
void h_bs_start(void)
{
	struct buffered_socket bs;
	struct eventloop loop; loop.add = stub_add; loop.remove = stub_remove; loop.this_ptr = NULL;
	for (size_t i = 0; i < IN_MAX; i++) verif_in[i] = nondet_u8();
	verif_in_len = nondet_size();
	__CPROVER_assume(verif_in_len <= IN_MAX);
	verif_delivered = 0; verif_consumed = 0;
	buffered_socket_init(&bs, 3, &loop, stub_error, NULL);
	verif_add_ret = nondet_bool() ? EL_CONTINUE_LOOP : EL_ABORT_LOOP;
	bool until = nondet_bool();
	size_t num = nondet_size();
	__CPROVER_assume(num >= 1 && num <= CONFIG_MAX_MESSAGE_SIZE + 1);
	int r = until ? buffered_socket_read_until(&bs, "\r\n", stub_read_cb, NULL) : buffered_socket_read_exactly(&bs, num, stub_read_cb, NULL);
	if (verif_add_ret == EL_ABORT_LOOP) {
		__CPROVER_assert(r == -1 && verif_cb_calls == 0 && verif_error_cb == 0, "C09.start.registration-failure-reported");
	} else {
		__CPROVER_assert(r == 0, "C09.start.returns-ok");
		__CPROVER_assert(verif_error_cb <= 1, "C09.start.error-reported-at-most-once");
		if (!verif_cb_closed) {
			size_t unread = verif_delivered - verif_consumed;
			bool too_long = until ? (unread == CONFIG_MAX_MESSAGE_SIZE) : (num > CONFIG_MAX_MESSAGE_SIZE);
			if (verif_read_hard_error || too_long)
				__CPROVER_assert(verif_error_cb == 1, "C13.start.read-error-and-over-long-line-are-reported-through-the-error-callback");
			else
				__CPROVER_assert(verif_error_cb == 0, "C09.start.would-block-is-not-an-error");
		} else {
			__CPROVER_assert(verif_error_cb == 0, "C05.start.closed-by-callback-is-not-an-error");
		}
	}
	VERIF_COVER(verif_add_ret != EL_ABORT_LOOP && until && !verif_cb_closed && !verif_read_hard_error && verif_delivered - verif_consumed == CONFIG_MAX_MESSAGE_SIZE, "over-long line already readable");
	VERIF_COVER(verif_add_ret != EL_ABORT_LOOP && verif_cb_calls >= 2 && !verif_cb_closed, "two messages handled, then would block");
	VERIF_COVER(verif_cb_closed && verif_cb_calls == 1, "closed in the first callback");
	VERIF_COVER(verif_read_hard_error && !verif_cb_closed, "read error");
}
