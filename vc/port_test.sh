#!/bin/bash
# usage: vc/port_test.sh <name> <python-edit-script-file> <property> [check args]: apply an edit script (python, gets the scratch repo path) to a scratch copy and run a check
name=$1; script=$2; prop=$3; shift 3
tmp=$(mktemp -d /tmp/cjet-port-XXXXXX); mkdir -p $tmp/repo $tmp/out; cp -r /repo/src /repo/cmake $tmp/repo/
python3 $script $tmp/repo || { echo "EDIT-FAILED"; rm -rf $tmp; exit 3; }
(cd $tmp/repo && for f in $(cd /repo && git ls-files src | grep -v tests); do cmp -s /repo/$f $f || diff -u --label a/$f --label b/$f /repo/$f $f; done) > /verif/seeded/$name/patch_ported_to_current_tree.diff
VERIF_REPO=$tmp/repo VERIF_OUT=$tmp/out python3 /verif/vc/driver.py $prop "$@" 2>/dev/null | grep -a "VIOLATION\|INFRA-ERROR prop\|^OK" | sed 's/.*obligation=//' | cut -c1-110 | head -4
rm -rf $tmp
