/* units ht.*: the hopscotch table of src/hashtable.h, instantiated by the real DECLARE_HASHTABLE_*
 * macro (see contracts/ht_contracts.h) for order HT_ORDER and key kind HT_KIND.
 * Contract enforcement by hand-instrumented harness: assume(PRE); snapshot; call; assert(POST). */
#include "common.h"
#include "ht_contracts.h"

/* HT_ONLY=n restricts a harness to its n-th postcondition (lets the driver solve them in parallel) */
#ifdef HT_ONLY
#define HT_ASSERT(n, cond, tag) do { if ((n) == HT_ONLY) __CPROVER_assert(cond, tag); } while (0)
#else
#define HT_ASSERT(n, cond, tag) __CPROVER_assert(cond, tag)
#endif

void h_ht_get(void)
{
	struct ht_table T, T0;
	ht_key_t key;
	ht_val_t out;
	__CPROVER_assume(HT_PRE(&T));
	T0 = T;
	int r = hashtable_get_VT(T.s, key, &out);
	HT_ASSERT(1, HT_GET_POST_RESULT(&T0, key, r), "C17.get.found-iff-present");
	HT_ASSERT(2, HT_GET_POST_VALUE(&T0, key, r, out), "C17.get.returns-stored-value");
	HT_ASSERT(3, ht_same(&T0, &T), "C17.get.table-unchanged");
	VERIF_COVER(r == HASHTABLE_SUCCESS, "found");
	VERIF_COVER(r == HASHTABLE_SUCCESS && T.s[HT_WRAP(HT_H(key) + HT_N / 2 - 1)].key == key && HT_H(key) == HT_N - 1, "found at the far end of the add range, wrapped around the table end");
	VERIF_COVER(r != HASHTABLE_SUCCESS && T.s[HT_H(key)].hop_info != 0, "not found although its home has entries");
}

void h_ht_remove(void)
{
	struct ht_table T, T0;
	ht_key_t key, k2;
	ht_val_t out;
	ht_val_t *outp = nondet_bool() ? &out : NULL;
	__CPROVER_assume(HT_PRE(&T));
	T0 = T;
	int r = hashtable_remove_VT(T.s, key, outp);
	HT_ASSERT(1, HT_REMOVE_POST_RESULT(&T0, key, r), "C17.remove.success-iff-was-present");
	HT_ASSERT(2, HT_REMOVE_POST_VALUE(&T0, key, r, outp), "C17.remove.returns-removed-value");
	HT_ASSERT(3, HT_REMOVE_POST_VIEW(&T0, &T, key, k2), "C17.remove.view-is-old-view-minus-key");
	HT_ASSERT(4, ht_inv(&T) && ht_values_ok(&T), "C17.remove.inv-preserved");
	HT_ASSERT(5, r == HASHTABLE_SUCCESS || ht_same(&T0, &T), "C17.remove.failure-changes-nothing");
	VERIF_COVER(r == HASHTABLE_SUCCESS && outp != NULL, "removed");
	VERIF_COVER(r == HASHTABLE_SUCCESS && outp == NULL, "removed, value not wanted");
	VERIF_COVER(r != HASHTABLE_SUCCESS, "not found");
	VERIF_COVER(r == HASHTABLE_SUCCESS && k2 != key && ht_lookup(&T, k2) != HT_NONE && HT_H(k2) == HT_H(key), "a colliding key survives");
}

void h_ht_put(void)
{
	struct ht_table T, T0;
	ht_key_t key, k2;
	ht_val_t v, prev;
	ht_val_t *prevp = nondet_bool() ? &prev : NULL;
	__CPROVER_assume(HT_PRE(&T));
	__CPROVER_assume(v.vals[0] != HT_NONE);
	T0 = T;
	int r = hashtable_put_VT(T.s, key, v, prevp);
	HT_ASSERT(1, HT_PUT_POST_RESULT(&T0, key, r), "C17.put.result");
	HT_ASSERT(2, HT_PUT_POST_NOT_REFUSED(&T0, key, r), "C17.put.refused-only-when-no-slot-in-reach");
	HT_ASSERT(3, HT_PUT_POST_VIEW(&T0, &T, key, v.vals[0], r, k2), "C17.put.view-is-old-view-plus-binding");
	HT_ASSERT(4, HT_PUT_POST_PREV(&T0, key, r, prevp), "C17.put.reports-previous-value");
	HT_ASSERT(5, ht_inv(&T) && ht_values_ok(&T), "C17.put.inv-preserved");
	VERIF_COVER(r == HASHTABLE_SUCCESS && ht_lookup(&T0, key) == HT_NONE, "inserted new key");
	VERIF_COVER(r == HASHTABLE_SUCCESS && ht_lookup(&T0, key) != HT_NONE, "overwrote existing key");
	VERIF_COVER(r == HASHTABLE_FULL, "refused: add range full");
	VERIF_COVER(r == HASHTABLE_KEYINVAL, "refused: reserved key");
	VERIF_COVER(r == HASHTABLE_SUCCESS && HT_H(key) == HT_N - 1 && T0.s[HT_N - 1].key != HT_INVALID, "insert probes across the table end");
}

/* hashtable_create: establishes Inv with an empty view (allocation may fail) */
void h_ht_create(void)
{
	ht_slot_t *t = hashtable_create_VT();
	if (t != NULL) {
		struct ht_table T;
		ht_key_t k2;
		memcpy(T.s, t, sizeof(T.s));
		HT_ASSERT(1, ht_inv(&T), "C17.create.inv-established");
		HT_ASSERT(2, ht_lookup(&T, k2) == HT_NONE, "C17.create.view-empty");
		hashtable_delete_VT(t);
	}
	VERIF_COVER(t != NULL, "created");
	VERIF_COVER(t == NULL, "allocation failed");
}

#if HT_ORDER >= 7
/* ---- displacement: find_closer_entry (reachable only for orders >= 7) -------------------------------------
 * Window-based contract.  find_closer_entry(table, f) only reads and writes the 32 slots f-31..f and the hop
 * bitmaps of the 31 homes before f.  "Inv with a hole at f" is therefore stated as
 *   (i)   the hole is unreferenced: for every home h in f-31..f the bit (f-h) of h is clear;
 *   (ii)  Inv-A for every bit of every home in f-62..f-1 (constant indices once f is fixed), Inv-C between the
 *         window slots and the ghost slots;
 *   (iii) Inv-A / Inv-B / Inv-C at GHOST indices (gh,gd), gp, gq chosen arbitrarily before the call,
 * and the postcondition re-establishes (i) for the new hole, and (iii) at the same arbitrary ghost indices
 * (universal generalisation), plus: the view is unchanged (the entry of ghost slot gp is still stored, with its
 * value, at gp or - if gp was the moved slot - at f), the hole moves 1..31 slots towards the home, and the function
 * gives up only if no entry in the window can move.  The free position f is a compile-time constant per unit:
 * the table is rotation-symmetric (all index arithmetic is modulo N, the hash is arbitrary), so one position
 * stands for all (assumption); f = 5 makes the window wrap around the table end. */
#ifndef HT_F
#define HT_F 5
#endif
#define SLOT(t, x) ((t)->s[HT_WRAP(x)])
static inline _Bool live_h(const struct ht_table *t, uint32_t p, uint32_t hole) { return p != hole && t->s[p].key != HT_INVALID; }
static inline _Bool wa(const struct ht_table *t, uint32_t h, uint32_t d, uint32_t hole)   /* Inv-A at (h,d) with a hole */
{
	if (!((t->s[h].hop_info >> d) & 1u)) return 1;
	uint32_t s = HT_WRAP(h + d);
	return live_h(t, s, hole) && HT_H(t->s[s].key) == h;
}
static inline _Bool wb(const struct ht_table *t, uint32_t p, uint32_t hole)               /* Inv-B at p with a hole */
{
	if (!live_h(t, p, hole)) return 1;
	uint32_t h = HT_H(t->s[p].key), d = HT_WRAP(p - h);
	return d < 32 && ((t->s[h].hop_info >> d) & 1u);
}
static inline _Bool wc(const struct ht_table *t, uint32_t p, uint32_t q, uint32_t hole)  /* Inv-C at (p,q) with a hole */
{
	return p == q || !live_h(t, p, hole) || !live_h(t, q, hole) || t->s[p].key != t->s[q].key;
}
static inline _Bool hole_unreferenced(const struct ht_table *t, uint32_t f)
{
	for (uint32_t d = 0; d < 32; d++) if ((SLOT(t, f - d).hop_info >> d) & 1u) return 0;
	return 1;
}
static inline _Bool window_a(const struct ht_table *t, uint32_t f)
{
	/* homes f-62..f-1: every home that can reference a slot of f-31..f */
	for (uint32_t b = 1; b < 63; b++) for (uint32_t d = 0; d < 32; d++) if (!wa(t, HT_WRAP(f - b), d, f)) return 0;
	return 1;
}
static inline _Bool window_c(const struct ht_table *t, uint32_t f, uint32_t g)
{
	/* no slot of the window holds the key of ghost slot g */
	for (uint32_t b = 1; b < 32; b++) if (!wc(t, HT_WRAP(f - b), g, f) || !wc(t, g, HT_WRAP(f - b), f)) return 0;
	return 1;
}
static inline _Bool movable_exists(const struct ht_table *t, uint32_t f)
{
	for (uint32_t d = 1; d < 32; d++) { uint32_t hop = SLOT(t, f - d).hop_info; for (uint32_t i = 0; i < d; i++) if ((hop >> i) & 1u) return 1; }
	return 0;
}
void h_ht_closer(void)
{
	struct ht_table T, T0;
	const uint32_t f = HT_F;
	uint32_t gh = nondet_u32(), gd = nondet_u32(), gp = nondet_u32(), gq = nondet_u32();
	__CPROVER_assume(gh < HT_N && gd < 32 && gp < HT_N && gq < HT_N);
	__CPROVER_assume(hole_unreferenced(&T, f) && window_a(&T, f));
	__CPROVER_assume(wa(&T, gh, gd, f) && wb(&T, gp, f) && wb(&T, gq, f) && wc(&T, gp, gq, f) && wc(&T, gq, gp, f));
	__CPROVER_assume(window_c(&T, f, gp) && window_c(&T, f, gq));
	T0 = T;
	uint32_t r = find_closer_entry_VT(T.s, f);
	if (r == 0xffffffff) {
		HT_ASSERT(1, T.s[gp].key == T0.s[gp].key && T.s[gp].value.vals[0] == T0.s[gp].value.vals[0] && T.s[gp].hop_info == T0.s[gp].hop_info, "C17.closer.no-candidate-changes-nothing");
		HT_ASSERT(2, !movable_exists(&T0, f), "C17.closer.gives-up-only-when-no-entry-can-move");
	} else {
		HT_ASSERT(3, r < HT_N && HT_WRAP(f - r) >= 1 && HT_WRAP(f - r) <= 31, "C17.closer.hole-moves-closer-to-the-home");
		if (r < HT_N) {
			HT_ASSERT(4, hole_unreferenced(&T, r), "C17.closer.new-hole-is-unreferenced");
			HT_ASSERT(5, wa(&T, gh, gd, r), "C17.closer.inv-A-preserved-at-an-arbitrary-bit");
			HT_ASSERT(6, wb(&T, gp, r), "C17.closer.inv-B-preserved-at-an-arbitrary-slot");
			HT_ASSERT(7, wc(&T, gp, gq, r), "C17.closer.inv-C-preserved-at-an-arbitrary-pair");
			/* view: the entry that lived in ghost slot gp is still stored with its value - in gp, or in f if gp was moved */
			if (live_h(&T0, gp, f)) {
				uint32_t now = (gp == r) ? f : gp;
				HT_ASSERT(8, live_h(&T, now, r) && T.s[now].key == T0.s[gp].key && T.s[now].value.vals[0] == T0.s[gp].value.vals[0], "C17.closer.every-entry-keeps-its-key-and-value");
			}
			/* nothing appears: a slot that is live afterwards held the same key before (or is f and holds the moved key) */
			if (live_h(&T, gp, r) && gp != f) HT_ASSERT(9, live_h(&T0, gp, f) && T.s[gp].key == T0.s[gp].key, "C17.closer.no-entry-appears");
		}
	}
	VERIF_COVER(r != 0xffffffff && HT_WRAP(f - r) == 31, "entry moved by 31 slots");
	VERIF_COVER(r != 0xffffffff && HT_WRAP(f - r) == 1, "entry moved by one slot");
	VERIF_COVER(r != 0xffffffff && r > f, "moved across the table end");
	VERIF_COVER(r == 0xffffffff, "no candidate");
}
#endif
