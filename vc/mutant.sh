#!/bin/sh
# usage: vc/mutant.sh <property> <file-relative-to-repo> <sed-expression> [extra check args]
# Applies one sed mutation to a scratch copy of /repo (never to /repo), runs the property check on it,
# prints the verdict, removes the scratch copy.
set -u
prop=$1; file=$2; expr=$3; shift 3
tmp=$(mktemp -d /tmp/cjet-mut-XXXXXX)
trap 'rm -rf "$tmp"' EXIT
mkdir -p "$tmp/repo" "$tmp/out"
cp -r /repo/src /repo/cmake "$tmp/repo/"
sed -i "$expr" "$tmp/repo/$file"
if cmp -s "$tmp/repo/$file" "/repo/$file"; then echo "MUTANT-NOT-APPLIED $file $expr"; exit 3; fi
VERIF_REPO="$tmp/repo" VERIF_OUT="$tmp/out" python3 "$(dirname "$0")/driver.py" "$prop" "$@" 2>"$tmp/err" | sed "s#$tmp/out#<scratch>#g" | cut -c1-260
rc=$?
grep -c "FAILED\|INFRA" "$tmp/err" >/dev/null
tail -3 "$tmp/err" | cut -c1-200
