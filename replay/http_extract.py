def extract(rec, trace_values, to_int):
    return [[]]
