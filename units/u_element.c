/* units el.*: the request handlers of src/element.c (properties C04, C08, C03, C01).
 *
 * Environment (assumed contracts, each justified elsewhere or listed as assumption):
 *  - the path index (table.c over hashtable.h) is a ghost finite map of <= 2 bindings keyed by string content;
 *    insertion may be refused (FULL) - the finite-map behaviour of the real table is property C17;
 *  - fetch.c: find_fetchers_for_element / notify_fetchers are recording stubs that may fail;
 *  - router.c: alloc_routing_request / create_routed_message / setup_routing_information are recording stubs;
 *  - response builders: recording stubs returning a fresh JSON object when the request carries an id;
 *  - groups: has_access = non-empty intersection (proved in grp.bits); get_groups = fixed mapping;
 *  - timeouts: get_timeout_in_nsec by its contract (proved in to.value);  JSON: executable model.
 * Shapes: paths of 1 or 2 characters, <= 2 existing elements, every member shape of `params`. */
#include "common.h"
#include <stdlib.h>
#include <string.h>
#include "log_stub.h"
#define CJ_DEPTH 1   /* values are leaves, stub responses are childless objects */
#include "cjson_model.h"
#include "element.c"
#include "jet_string.c"

/* ---- allocator (may fail when verif_alloc_may_fail) ---------------------------------------------- */
static bool verif_alloc_may_fail;
void *cjet_malloc(size_t n) { if (verif_alloc_may_fail && nondet_bool()) return NULL; return malloc(n); }
void *cjet_calloc(size_t a, size_t b) { if (verif_alloc_may_fail && nondet_bool()) return NULL; return calloc(a, b); }
static const void *verif_watch_free; static unsigned verif_watch_freed;   /* how often the watched block (the routing record) was released */
void cjet_free(void *p) { if (p != NULL && p == verif_watch_free) verif_watch_freed++; free(p); }
void log_peer_err(const struct peer *p, const char *fmt, ...) { (void)p; (void)fmt; }

/* ---- ghost finite map: the path index ------------------------------------------------------------------ */
#define MAP_MAX 3
static const char *verif_map_key[MAP_MAX]; static void *verif_map_val[MAP_MAX]; static unsigned verif_map_n;
static bool verif_map_full;     /* the index refuses the next insertion */
static unsigned verif_map_puts, verif_map_removes;
void *element_table_get(const char *path)
{
	for (unsigned i = 0; i < verif_map_n; i++) if (strcmp(verif_map_key[i], path) == 0) return verif_map_val[i];
	return NULL;
}
int element_table_put(const char *path, void *value)
{
	verif_map_puts++;
	if (verif_map_full || verif_map_n >= MAP_MAX) return HASHTABLE_FULL;
	verif_map_key[verif_map_n] = path; verif_map_val[verif_map_n] = value; verif_map_n++;
	return HASHTABLE_SUCCESS;
}
void element_table_remove(const char *path)
{
	verif_map_removes++;
	for (unsigned i = 0; i < verif_map_n; i++)
		if (strcmp(verif_map_key[i], path) == 0) { verif_map_key[i] = verif_map_key[verif_map_n - 1]; verif_map_val[i] = verif_map_val[verif_map_n - 1]; verif_map_n--; return; }
}

/* ---- recording stubs -------------------------------------------------------------------------------------- */
static unsigned verif_err, verif_ok; static int verif_err_code; static const char *verif_err_tag;
static cJSON *mk_response(const cJSON *request) { return cJSON_GetObjectItem(request, "id") != NULL ? cJSON_CreateObject() : NULL; }
cJSON *create_error_response_from_request(const struct peer *p, const cJSON *request, int code, const char *tag, const char *reason)
{ (void)p; (void)reason; verif_err++; verif_err_code = code; verif_err_tag = tag; return mk_response(request); }
cJSON *create_success_response_from_request(const struct peer *p, const cJSON *request) { (void)p; verif_ok++; return mk_response(request); }
group_t get_groups(const cJSON *g) { return g == NULL ? 0u : (group_t)(uintptr_t)g->valueint; }
bool has_access(group_t has, group_t wants) { return (has & wants) != 0; }
static unsigned verif_to_calls; static uint64_t verif_to_ret; static const cJSON *verif_to_arg;
uint64_t get_timeout_in_nsec(const struct peer *p, const cJSON *request, const cJSON *timeout, cJSON **response, uint64_t default_timeout)
{
	verif_to_calls++; verif_to_arg = timeout;
	if (timeout == NULL) return default_timeout;
	if (verif_to_ret == 0) *response = create_error_response_from_request(p, request, INVALID_PARAMS, "reason", "timeout");
	return verif_to_ret;
}
uint64_t convert_seconds_to_nsec(double s) { return (uint64_t)(s * 1000000000.0); }
static unsigned verif_notify_calls; static const struct element *verif_notify_e; static const char *verif_notify_event; static int verif_notify_ret;
static unsigned verif_find_calls; static int verif_find_ret; static unsigned verif_find_map_n;
int notify_fetchers(const struct element *e, const char *event_name) { verif_notify_calls++; verif_notify_e = e; verif_notify_event = event_name; return verif_notify_ret; }
int find_fetchers_for_element(struct element *e) { (void)e; verif_find_calls++; verif_find_map_n = verif_map_n; return verif_find_ret; }
/* router */
static struct routing_request *verif_rr; static unsigned verif_rr_allocs; static const struct peer *verif_rr_req, *verif_rr_owner; static const cJSON *verif_rr_id; static bool verif_rr_fail;
static unsigned verif_rm_calls; static const char *verif_rm_path; static enum type verif_rm_what; static const cJSON *verif_rm_value; static const char *verif_rm_id; static bool verif_rm_fail;
static unsigned verif_setup_calls; static int verif_setup_ret; static struct element *verif_setup_e; static const cJSON *verif_setup_timeout;
static unsigned verif_sends; static const struct peer *verif_send_peer; static int verif_send_ret;
struct routing_request *alloc_routing_request(const struct peer *requesting_peer, const struct peer *owner_peer, const cJSON *origin_request_id)
{
	verif_rr_allocs++; verif_rr_req = requesting_peer; verif_rr_owner = owner_peer; verif_rr_id = origin_request_id;
	if (verif_rr_fail) return NULL;
	verif_rr = malloc(sizeof(*verif_rr) + 2);
	__CPROVER_assume(verif_rr != NULL);
	verif_rr->origin_request_id = NULL; verif_rr->id[0] = 'r'; verif_rr->id[1] = 0;
	verif_watch_free = verif_rr;
	return verif_rr;
}
cJSON *create_routed_message(const struct peer *p, const char *path, enum type what, const cJSON *value, const char *id)
{ (void)p; verif_rm_calls++; verif_rm_path = path; verif_rm_what = what; verif_rm_value = value; verif_rm_id = id; return verif_rm_fail ? NULL : cJSON_CreateObject(); }
int setup_routing_information(struct element *e, const cJSON *request, const cJSON *timeout, struct routing_request *rr, cJSON **response)
{
	verif_setup_calls++; verif_setup_e = e; verif_setup_timeout = timeout;
	__CPROVER_assert(rr == verif_rr, "C03.route.setup-gets-the-allocated-record");
	if (verif_setup_ret < 0) *response = create_error_response_from_request(rr->requesting_peer, request, INTERNAL_ERROR, "reason", "setup");
	return verif_setup_ret;
}
static unsigned verif_cancel_calls; static const struct peer *verif_cancel_owner; static struct routing_request *verif_cancel_rr;
void cancel_routing_request(const struct peer *owner_peer, struct routing_request *request) { verif_cancel_calls++; verif_cancel_owner = owner_peer; verif_cancel_rr = request; }
static int stub_send(const struct peer *p, char *rendered, size_t len) { (void)rendered; (void)len; verif_sends++; verif_send_peer = p; return verif_send_ret; }

/* ---- world: two peers, up to two existing elements, one symbolic request ------------------------------ */
static struct peer verif_p, verif_q;            /* p: the requesting peer, q: another peer */
static struct element verif_e[2]; static char verif_epath[2][3]; static cJSON verif_evalue[2];
static unsigned verif_ne;
static unsigned verif_world_nodes;   /* JSON nodes owned by the pre-existing elements */
static cJSON verif_req, verif_params, verif_path, verif_value, verif_fo, verif_access, verif_timeout, verif_id, verif_args, verif_fg, verif_sg, verif_cg;
static char verif_rpath[3];
static bool has_params, has_path, has_value, has_fo, has_access_m, has_timeout, has_id, has_args;

static void chars2(char *s) { s[0] = (char)nondet_u8(); s[1] = (char)nondet_u8(); s[2] = 0; __CPROVER_assume(s[0] != 0); }

static void build_world(void)
{
#ifdef EL_ALLOC_FAIL
	verif_alloc_may_fail = true; verif_cj_may_fail = true;   /* every allocation of the handler may fail, in any combination */
#endif
	INIT_LIST_HEAD(&verif_p.element_list); INIT_LIST_HEAD(&verif_q.element_list);
	verif_p.send_message = stub_send; verif_q.send_message = stub_send;
	verif_p.set_groups = nondet_u32(); verif_p.call_groups = nondet_u32(); verif_p.fetch_groups = nondet_u32();
	verif_p.is_local_connection = nondet_bool();
#ifdef EL_SHAPE
	/* one unit per shape of the world (number of existing elements, their owners): keeps each formula small */
	verif_ne = (EL_SHAPE) & 3;
#else
	verif_ne = nondet_uint();
	__CPROVER_assume(verif_ne <= 2);
#endif
	for (unsigned i = 0; i < 2; i++) {
		struct element *e = &verif_e[i];
		chars2(verif_epath[i]);
		e->path = verif_epath[i];
#ifdef EL_SHAPE
		e->peer = (((EL_SHAPE) >> (2 + i)) & 1) ? &verif_q : &verif_p;
#else
		e->peer = nondet_bool() ? &verif_p : &verif_q;
#endif
		e->value = NULL;
		if (i < verif_ne && nondet_bool()) { e->value = cJSON_CreateNumber(1); __CPROVER_assume(e->value != NULL); verif_world_nodes++; }
		e->flags = nondet_bool() ? FETCH_ONLY_FLAG : 0;
		e->set_groups = nondet_u32(); e->call_groups = nondet_u32(); e->fetch_groups = nondet_u32();
		e->fetcher_table = NULL; e->fetch_table_size = 0; e->timeout_nsec = 5000000000ull;
		if (i < verif_ne) {
			list_add_tail(&e->element_list, &e->peer->element_list);
			verif_map_key[verif_map_n] = e->path; verif_map_val[verif_map_n] = e; verif_map_n++;
		}
	}
	/* at most one element per path (the namespace invariant the handlers must preserve) */
	__CPROVER_assume(verif_ne < 2 || strcmp(verif_epath[0], verif_epath[1]) != 0);
	verif_map_full = nondet_bool();
	verif_notify_ret = nondet_bool() ? 0 : -1; verif_find_ret = nondet_bool() ? 0 : -1;
	verif_send_ret = nondet_bool() ? 0 : -1; verif_setup_ret = nondet_bool() ? 0 : -1;
	verif_rr_fail = nondet_bool(); verif_rm_fail = nondet_bool();
	verif_to_ret = nondet_bool() ? 0 : 7000000000ull;
}

static void build_request(void)
{
	cJSON *last = NULL;
#define MEMBER(cond, node, name) do { (node)->string = (char *)(name); (node)->next = NULL; (node)->child = NULL; (node)->prev = NULL; if (cond) { if (last) last->next = (node); else verif_params.child = (node); last = (node); } } while (0)
	has_params = nondet_bool(); has_path = nondet_bool(); has_value = nondet_bool(); has_fo = nondet_bool(); has_access_m = nondet_bool(); has_timeout = nondet_bool(); has_id = nondet_bool(); has_args = nondet_bool();
	verif_params.type = cJSON_Object; verif_params.child = NULL; verif_params.string = "params"; verif_params.next = NULL; verif_params.valuestring = NULL;
	chars2(verif_rpath);
	verif_path.type = nondet_bool() ? cJSON_String : cJSON_Number; verif_path.valuestring = verif_rpath;
	MEMBER(has_path, &verif_path, "path");
	int vt = nondet_int();
	__CPROVER_assume(vt == cJSON_Number || vt == cJSON_NULL || vt == cJSON_False || vt == cJSON_String);
	verif_value.type = vt; verif_value.valuestring = NULL; verif_value.valuedouble = 1; verif_value.valueint = 1;
	MEMBER(has_value, &verif_value, "value");
	int ft = nondet_int();
	__CPROVER_assume(ft == cJSON_True || ft == cJSON_False || ft == cJSON_Number);
	verif_fo.type = ft; verif_fo.valuestring = NULL;
	MEMBER(has_fo, &verif_fo, "fetchOnly");
	verif_timeout.type = cJSON_Number; verif_timeout.valuestring = NULL; verif_timeout.valuedouble = 7;
	MEMBER(has_timeout, &verif_timeout, "timeout");
	verif_args.type = cJSON_Array; verif_args.valuestring = NULL;
	MEMBER(has_args, &verif_args, "args");
	/* access: {fetchGroups, setGroups, callGroups}: each an array (get_groups maps it to its valueint) or a non-array */
	verif_access.type = cJSON_Object; verif_access.valuestring = NULL;
	MEMBER(has_access_m, &verif_access, "access");
	verif_fg.string = "fetchGroups"; verif_sg.string = "setGroups"; verif_cg.string = "callGroups";
	verif_fg.type = nondet_bool() ? cJSON_Array : cJSON_String; verif_sg.type = nondet_bool() ? cJSON_Array : cJSON_String; verif_cg.type = nondet_bool() ? cJSON_Array : cJSON_String;
	verif_fg.valueint = 0x10; verif_sg.valueint = 0x20; verif_cg.valueint = 0x40;
	verif_fg.child = verif_sg.child = verif_cg.child = NULL; verif_fg.valuestring = verif_sg.valuestring = verif_cg.valuestring = NULL;
	verif_access.child = &verif_fg; verif_fg.next = &verif_sg; verif_sg.next = &verif_cg; verif_cg.next = NULL;
	int it = nondet_int();
	__CPROVER_assume(it == cJSON_String || it == cJSON_Number || it == cJSON_True);
	verif_id.type = it; verif_id.string = "id"; verif_id.child = NULL; verif_id.valuestring = "i"; verif_id.next = NULL;
	verif_req.type = cJSON_Object; verif_req.string = NULL; verif_req.next = NULL; verif_req.valuestring = NULL;
	verif_req.child = has_params ? &verif_params : (has_id ? &verif_id : NULL);
	verif_params.next = has_id ? &verif_id : NULL;
}

static bool path_ok(void) { return has_params && has_path && verif_path.type == cJSON_String; }
static struct element *existing(const char *path) { for (unsigned i = 0; i < verif_ne; i++) if (strcmp(verif_epath[i], path) == 0) return &verif_e[i]; return NULL; }
static unsigned list_len(const struct list_head *h) { unsigned n = 0; for (const struct list_head *i = h->next; i != h && n < 4; i = i->next) n++; return n; }

/* snapshot of everything an erroneous request must leave untouched */
static unsigned snap_map_n, snap_lp, snap_lq; static cJSON *snap_val[2]; static const void *snap_key[MAP_MAX], *snap_mval[MAP_MAX];
static void snapshot(void)
{
	snap_map_n = verif_map_n; snap_lp = list_len(&verif_p.element_list); snap_lq = list_len(&verif_q.element_list);
	for (unsigned i = 0; i < 2; i++) snap_val[i] = verif_e[i].value;
	for (unsigned i = 0; i < MAP_MAX; i++) { snap_key[i] = verif_map_key[i]; snap_mval[i] = verif_map_val[i]; }
}
static bool unchanged(void)
{
	if (snap_map_n != verif_map_n || snap_lp != list_len(&verif_p.element_list) || snap_lq != list_len(&verif_q.element_list)) return false;
	for (unsigned i = 0; i < 2; i++) if (snap_val[i] != verif_e[i].value) return false;
	for (unsigned i = 0; i < verif_map_n; i++) if (snap_key[i] != verif_map_key[i] || snap_mval[i] != verif_map_val[i]) return false;
	return true;
}
#ifdef EL_ALLOC_FAIL
/* under allocation failure the response itself may be impossible to build: at most one, nothing leaked */
#define ONE_RESPONSE(r, extra) __CPROVER_assert(verif_err + verif_ok == 1 && ((r) == NULL || has_id) && verif_cj_live_nodes == verif_world_nodes + (extra) + ((r) != NULL ? 1u : 0u), "C15.handler.at-most-one-response-nothing-leaked")
#else
#define ONE_RESPONSE(r, extra) __CPROVER_assert(verif_err + verif_ok == 1 && ((r) != NULL) == has_id && verif_cj_live_nodes == verif_world_nodes + (extra) + ((r) != NULL ? 1u : 0u), "C02.handler.exactly-one-response-object-built")
#endif
static void release_world(void) { for (unsigned i = 0; i < 2; i++) if (verif_e[i].value != NULL) { cJSON_Delete(verif_e[i].value); verif_e[i].value = NULL; } }

/* ---- add ---------------------------------------------------------------------------------------------------- */
void h_el_add(void)
{
	build_world(); build_request(); snapshot();
	cJSON *r = add_element_to_peer(&verif_p, &verif_req);
	bool fo_ok = !has_fo || verif_fo.type == cJSON_True || verif_fo.type == cJSON_False;
	bool to_ok = !has_timeout || verif_to_ret != 0;
	bool access_ok = !has_access_m || (verif_fg.type == cJSON_Array && (has_value ? verif_sg.type == cJSON_Array : verif_cg.type == cJSON_Array));
	bool well_formed = path_ok() && fo_ok && to_ok && access_ok;
	bool path_free = path_ok() && existing(verif_rpath) == NULL;
	if (verif_ok == 1) {
		__CPROVER_assert(well_formed && path_free, "C04.add.succeeds-only-for-a-well-formed-request-on-a-free-path");
		__CPROVER_assert(verif_map_n == snap_map_n + 1 && list_len(&verif_p.element_list) == snap_lp + 1 && list_len(&verif_q.element_list) == snap_lq, "C04.add.exactly-one-element-added-to-the-requester");
		struct element *e = element_table_get(verif_rpath);
		__CPROVER_assert(e != NULL && strcmp(e->path, verif_rpath) == 0 && e->peer == &verif_p && verif_p.element_list.prev == &e->element_list, "C04.add.new-element-indexed-under-its-path-owned-by-the-requester");
		__CPROVER_assert(e != NULL && (e->value != NULL) == has_value, "C04.add.state-iff-a-value-member-is-given");
		__CPROVER_assert(e != NULL && e->value != &verif_value && (!has_value || e->value->type == verif_value.type), "C04.add.value-is-a-private-copy");
		__CPROVER_assert(e != NULL && element_is_fetch_only(e) == (has_fo && verif_fo.type == cJSON_True), "C04.add.fetch-only-flag");
		__CPROVER_assert(e != NULL && e->timeout_nsec == (has_timeout ? 7000000000ull : 5000000000ull), "C14.add.element-timeout-is-the-given-one-else-the-configured-default");
		__CPROVER_assert(e != NULL && e->fetch_groups == (has_access_m ? 0x10u : 0u) && e->set_groups == ((has_access_m && has_value) ? 0x20u : 0u) && e->call_groups == ((has_access_m && !has_value) ? 0x40u : 0u), "C08.add.access-groups-recorded");
		__CPROVER_assert(verif_find_calls == 1 && verif_find_map_n == snap_map_n, "C01.add.subscribers-notified-before-the-element-is-indexed");
	} else {
		__CPROVER_assert(unchanged(), "C04.add.refused-request-changes-nothing");
		__CPROVER_assert(!(well_formed && path_free) || verif_err_code == INTERNAL_ERROR, "C04.add.well-formed-add-on-a-free-path-fails-only-with-an-internal-error");
#ifndef EL_ALLOC_FAIL
		__CPROVER_assert(path_free || !path_ok() || verif_err_code == INVALID_PARAMS, "C04.add.occupied-path-is-refused-as-invalid-params");
#endif
		if (verif_find_calls == 1 && verif_find_ret == 0)
			__CPROVER_assert(0, "C01.add.no-add-event-without-an-element");
	}
	ONE_RESPONSE(r, (verif_ok == 1 && has_value) ? 1u : 0u);
	if (r) cJSON_Delete(r);
	if (verif_ok == 1) { struct element *ne = element_table_get(verif_rpath); if (ne != NULL) { list_del(&ne->element_list); free_element(ne); } }
	release_world();
	VERIF_COVER(verif_ok == 1 && has_value && verif_value.type == cJSON_NULL, "state with a null value added");
	VERIF_COVER(verif_ok == 1 && !has_value && has_access_m, "method with access groups added");
#if !defined(EL_SHAPE) || ((EL_SHAPE) & 3) >= 1
	VERIF_COVER(verif_ok == 0 && well_formed && !path_free, "path exists");
#endif
	VERIF_COVER(verif_ok == 0 && well_formed && path_free && verif_map_full, "index full");
}

/* ---- change ------------------------------------------------------------------------------------------------- */
void h_el_change(void)
{
	build_world(); build_request(); snapshot();
	cJSON *r = change_state(&verif_p, &verif_req);
	struct element *e = path_ok() ? existing(verif_rpath) : NULL;
	bool allowed = e != NULL && has_value && e->peer == &verif_p && ((e == &verif_e[0] ? snap_val[0] : snap_val[1]) != NULL);
	if (verif_ok == 1 || (verif_notify_calls == 1)) {
		__CPROVER_assert(allowed, "C04.change.accepted-only-from-the-owner-and-only-for-states");
		__CPROVER_assert(e->value != NULL && e->value != &verif_value && e->value->type == verif_value.type, "C04.change.value-replaced-by-a-private-copy");
		__CPROVER_assert(verif_notify_calls == 1 && verif_notify_e == e && strcmp(verif_notify_event, "change") == 0, "C01.change.subscribers-notified-once");
		__CPROVER_assert(verif_map_n == snap_map_n && list_len(&verif_p.element_list) == snap_lp, "C04.change.set-of-elements-unchanged");
	} else {
		__CPROVER_assert(unchanged() && verif_notify_calls == 0, "C04.change.refused-request-changes-nothing");
	}
	__CPROVER_assert(!allowed || verif_ok == 1 || verif_err_code == INTERNAL_ERROR, "C04.change.owner-change-of-a-state-fails-only-with-an-internal-error");
	ONE_RESPONSE(r, 0u);
	if (r) cJSON_Delete(r);
	release_world();
	VERIF_COVER(verif_err == 1 && !path_ok(), "malformed request refused");
#if !defined(EL_SHAPE) || ((EL_SHAPE) & 3) == 1 && !((EL_SHAPE) & 4) || ((EL_SHAPE) & 3) == 2 && ((EL_SHAPE) & 12) != 12
	VERIF_COVER(verif_ok == 1, "changed");
	VERIF_COVER(verif_ok == 0 && e != NULL && e->peer == &verif_p && has_value && e->value == NULL, "change on a method");
#endif
#if !defined(EL_SHAPE) || ((EL_SHAPE) & 3) >= 1 && ((EL_SHAPE) & 4) || ((EL_SHAPE) & 3) == 2 && ((EL_SHAPE) & 8)
	VERIF_COVER(verif_ok == 0 && e != NULL && e->peer == &verif_q && has_value, "not the owner");
#endif
}

/* ---- remove ------------------------------------------------------------------------------------------------- */
void h_el_remove(void)
{
	build_world(); build_request();
	/* the elements are heap objects here (remove frees them) */
	for (unsigned i = 0; i < verif_ne; i++) {
		struct element *h = malloc(sizeof(*h)); char *hp = malloc(3); void *ft = malloc(8);
		__CPROVER_assume(h != NULL && hp != NULL && ft != NULL);
		*h = verif_e[i]; memcpy(hp, verif_epath[i], 3); h->path = hp; h->fetcher_table = ft; verif_e[i].value = NULL;
		list_del(&verif_e[i].element_list);
		list_add_tail(&h->element_list, &h->peer->element_list);
		for (unsigned k = 0; k < verif_map_n; k++) if (verif_map_val[k] == &verif_e[i]) { verif_map_val[k] = h; verif_map_key[k] = hp; }
	}
	snapshot();
	struct element *own = NULL;
	if (path_ok()) for (unsigned k = 0; k < verif_map_n; k++) { struct element *e = verif_map_val[k]; if (e->peer == &verif_p && strcmp(e->path, verif_rpath) == 0) own = e; }
	bool other_exists = path_ok() && element_table_get(verif_rpath) != NULL && own == NULL;
	cJSON *r = remove_element_from_peer(&verif_p, &verif_req);
	if (verif_ok == 1) {
		__CPROVER_assert(own != NULL, "C04.remove.accepted-only-for-an-element-of-the-requester-with-exactly-that-path");
		__CPROVER_assert(verif_map_n == snap_map_n - 1 && element_table_get(verif_rpath) == NULL && list_len(&verif_p.element_list) == snap_lp - 1 && list_len(&verif_q.element_list) == snap_lq, "C04.remove.exactly-that-element-disappears");
		__CPROVER_assert(verif_notify_calls == 1 && verif_notify_e == own && strcmp(verif_notify_event, "remove") == 0, "C01.remove.subscribers-told-remove-once");
	} else {
		__CPROVER_assert(snap_map_n == verif_map_n && snap_lp == list_len(&verif_p.element_list) && snap_lq == list_len(&verif_q.element_list) && verif_notify_calls == 0 && verif_map_removes == 0, "C04.remove.refused-request-changes-nothing");
		__CPROVER_assert(own == NULL, "C04.remove.own-element-is-removable");
	}
	(void)other_exists;
	if (r) cJSON_Delete(r);
	/* release what is left */
	for (unsigned k = 0; k < verif_map_n; k++) { struct element *e = verif_map_val[k]; if (e->value) cJSON_Delete(e->value); free(e->path); free(e->fetcher_table); free(e); }
	__CPROVER_assert(verif_err + verif_ok == 1 && verif_cj_live_nodes == 0, "C02.handler.exactly-one-response-object-built");
	VERIF_COVER(verif_err == 1 && !path_ok(), "malformed request refused");
#if !defined(EL_SHAPE) || ((EL_SHAPE) & 3) == 1 && !((EL_SHAPE) & 4) || ((EL_SHAPE) & 3) == 2 && ((EL_SHAPE) & 12) != 12
	VERIF_COVER(verif_ok == 1, "own element removed");
	VERIF_COVER(verif_ok == 0 && path_ok() && snap_lp > 0, "own element with a different path stays");
#endif
#if !defined(EL_SHAPE) || ((EL_SHAPE) & 3) >= 1 && ((EL_SHAPE) & 4) || ((EL_SHAPE) & 3) == 2 && ((EL_SHAPE) & 8)
	VERIF_COVER(verif_ok == 0 && other_exists, "element of another peer not removable");
#endif
}

/* ---- el.removeall: the connection-end sweep over a peer's elements (C05) -----------------------------------------
 * every element of the leaving peer disappears from the path index and from its list, its subscribers are told "remove"
 * exactly once per element, elements of other peers are untouched */
void h_el_removeall(void)
{
	build_world();
	for (unsigned i = 0; i < verif_ne; i++) {
		struct element *h = malloc(sizeof(*h)); char *hp = malloc(3); void *ft = malloc(8);
		__CPROVER_assume(h != NULL && hp != NULL && ft != NULL);
		*h = verif_e[i]; memcpy(hp, verif_epath[i], 3); h->path = hp; h->fetcher_table = ft; verif_e[i].value = NULL;
		list_del(&verif_e[i].element_list);
		list_add_tail(&h->element_list, &h->peer->element_list);
		for (unsigned k = 0; k < verif_map_n; k++) if (verif_map_val[k] == &verif_e[i]) { verif_map_val[k] = h; verif_map_key[k] = hp; }
	}
	snapshot();
	remove_all_elements_from_peer(&verif_p);
	__CPROVER_assert(list_len(&verif_p.element_list) == 0 && list_len(&verif_q.element_list) == snap_lq && verif_map_n == snap_map_n - snap_lp, "C05.leave.every-element-of-the-peer-disappears-and-no-other");
	for (unsigned k = 0; k < verif_map_n; k++) { const struct element *e = verif_map_val[k]; __CPROVER_assert(e->peer == &verif_q, "C05.leave.elements-of-other-peers-stay-in-the-path-index"); }
	__CPROVER_assert(verif_notify_calls == snap_lp && (snap_lp == 0 || strcmp(verif_notify_event, "remove") == 0), "C05.leave.subscribers-are-told-remove-once-per-element");
	for (unsigned k = 0; k < verif_map_n; k++) { struct element *e = verif_map_val[k]; if (e->value) cJSON_Delete(e->value); free(e->path); free(e->fetcher_table); free(e); }
	__CPROVER_assert(verif_cj_live_nodes == 0, "C05.leave.no-json-node-left-behind");
#if !defined(EL_SHAPE) || ((EL_SHAPE) & 3) >= 1
	VERIF_COVER(snap_lp >= 1, "peer owns an element");
#endif
}

/* ---- set / call --------------------------------------------------------------------------------------------- */
void h_el_setcall(void)
{
	build_world(); build_request(); snapshot();
	enum type what = nondet_bool() ? STATE : METHOD;
	cJSON *r = set_or_call(&verif_p, &verif_req, what);
	struct element *e = path_ok() ? existing(verif_rpath) : NULL;
	bool typed = e != NULL && !element_is_fetch_only(e) && ((what == STATE) == (e->value != NULL));
	bool authorised = typed && (what == STATE ? (e->set_groups & verif_p.set_groups) != 0 : (e->call_groups & verif_p.call_groups) != 0);
	bool id_ok = !has_id || verif_id.type == cJSON_String || verif_id.type == cJSON_Number;
	bool routable = authorised && id_ok && (what == METHOD || has_value);
	__CPROVER_assert(unchanged(), "C04.setcall.never-changes-elements-or-values");
	if (verif_rr_allocs > 0) {
		__CPROVER_assert(authorised && id_ok, "C04.setcall.refused-for-unknown-path-fetch-only-wrong-type-or-missing-group-before-anything-is-routed");
		__CPROVER_assert(e != NULL && (what == STATE ? (e->set_groups & verif_p.set_groups) != 0 : (e->call_groups & verif_p.call_groups) != 0), "C08.setcall.routed-only-when-the-caller-shares-a-set-group-resp-call-group");
		__CPROVER_assert(verif_rr_allocs == 1 && verif_rr_req == &verif_p && verif_rr_owner == e->peer && verif_rr_id == (has_id ? &verif_id : NULL), "C03.route.record-names-caller-owner-and-original-id");
	}
	if (verif_sends > 0) {
		__CPROVER_assert(routable && verif_sends == 1 && verif_send_peer == e->peer, "C03.route.delivered-once-to-the-owner-only");
		__CPROVER_assert(verif_rm_calls == 1 && verif_rm_path == verif_rpath && verif_rm_what == what && verif_rm_id == verif_rr->id &&
			verif_rm_value == (what == STATE ? &verif_value : (has_args ? &verif_args : NULL)), "C03.route.message-carries-path-and-the-callers-value-or-args");
		__CPROVER_assert(verif_setup_calls == 1 && verif_setup_e == e && verif_setup_timeout == (has_timeout ? &verif_timeout : NULL), "C14.route.deadline-from-the-request-else-the-element");
		__CPROVER_assert(verif_send_ret != 0 || (r == NULL && verif_err == 0), "C03.route.accepted-request-is-answered-later-not-now");
	} else {
		__CPROVER_assert(!routable || verif_rr_fail || verif_rm_fail || verif_setup_ret < 0 || verif_alloc_may_fail, "C03.route.authorised-request-is-forwarded");
		__CPROVER_assert(verif_err == 1, "C04.setcall.refusal-is-answered-with-an-error");
	}
	__CPROVER_assert(verif_err + verif_ok <= 1 && (r == NULL || has_id) && verif_cj_live_nodes == verif_world_nodes + (r != NULL ? 1u : 0u), "C02.handler.at-most-one-response-object-built");
	/* once setup_routing_information() has registered the record (routing table entry, armed timer) it belongs to the router:
	 * the handler must not release it on a later failure (rendering, sending) - the timer and the table would keep a dangling pointer */
	bool was_registered = verif_setup_calls == 1 && verif_setup_ret == 0;
	bool cancelled = verif_cancel_calls == 1 && verif_cancel_rr == verif_rr && e != NULL && verif_cancel_owner == e->peer;
	__CPROVER_assert(verif_cancel_calls == 0 || (was_registered && cancelled), "C03.route.only-a-registered-request-is-cancelled-and-at-its-owner");
	bool registered = was_registered && verif_cancel_calls == 0;
	__CPROVER_assert(!registered || verif_watch_freed == 0, "C15.route.registered-record-is-not-released-by-the-handler");
	__CPROVER_assert(verif_rr == NULL || registered || verif_watch_freed == 1, "C07.route.unregistered-record-is-released-once");
	/* exactly one answer per request: a request that is answered by the handler itself must not stay registered (it would be
	 * answered again by its deadline or by the owner's departure), and a registered request is answered later, not now */
	__CPROVER_assert(!registered || (r == NULL && verif_err == 0), "C02.route.request-answered-now-does-not-stay-registered");
	if (r) cJSON_Delete(r);
	release_world();
	if (verif_rr != NULL && registered && verif_watch_freed == 0) free(verif_rr);
	VERIF_COVER(verif_sends == 1 && what == STATE && verif_send_ret == 0, "set routed");
	VERIF_COVER(verif_sends == 1 && what == METHOD && !has_args, "call without args routed");
	VERIF_COVER(verif_sends == 0 && typed && !authorised, "not authorised");
	VERIF_COVER(verif_sends == 0 && e != NULL && element_is_fetch_only(e), "fetch-only state");
	VERIF_COVER(verif_sends == 0 && authorised && !id_ok, "bad id type");
}
