/* Native demonstration against the real sources (router.c, response.c, element.c, parse.c, cJSON.c, ...):
 * a routed "set" is answered by the owner while ONE allocation made during the handling of that answer fails.
 * Every allocation of handle_routing_response() is made to fail in turn.  Exit 1 (or an AddressSanitizer abort)
 * if the daemon touches freed memory, answers twice or loses accounting; exit 0 otherwise.
 * Build (from a checkout that has been configured with cmake, so that _build/src/generated exists):
 *   gcc -std=gnu99 -D_GNU_SOURCE -D_DEFAULT_SOURCE=1 -g -O0 -fsanitize=address -fno-omit-frame-pointer -Isrc -I_build/src \
 *       -I/verif/replay /verif/replay/rt_reply_allocfail_demo.c src/alloc.c src/authenticate.c src/config.c src/element.c \
 *       src/fetch.c src/groups.c src/info.c src/jet_string.c src/json/cJSON.c src/linux/jet_string.c src/parse.c src/peer.c \
 *       src/posix/jet_string.c src/response.c src/router.c src/table.c src/timer.c src/utf8_checker.c src/linux/timer_linux.c \
 *       -lm -Wl,--wrap=malloc -Wl,--wrap=calloc -o /tmp/rt_reply_demo && /tmp/rt_reply_demo
 * (alloc_harness.h: test peers, message capture and the failing-allocation wrapper; written for seeded change C15-3.) */
#include "alloc_harness.h"

static const char add_request[] = "{\"id\":1,\"method\":\"add\",\"params\":{\"path\":\"demo/state\",\"value\":1}}";
static const char set_request[] = "{\"id\":\"req1\",\"method\":\"set\",\"params\":{\"path\":\"demo/state\",\"value\":2}}";
static struct test_peer owner, setter;

int main(void)
{
	init_parser();
	if (element_hashtable_create() != 0) return 2;
	if ((test_peer_init(&owner, "owner") != 0) || (test_peer_init(&setter, "setter") != 0)) return 2;
	feed(&owner, add_request);
	const size_t baseline = cjet_get_alloc_size();
	long first = -1;
	for (long n = 0; n < 40; n++) {
		owner.messages = 0; owner.last[0] = '\0'; setter.messages = 0; setter.last[0] = '\0';
		feed(&setter, set_request);
		if (owner.messages != 1) { fprintf(stderr, "set request not routed\n"); return 2; }
		char reply[LAST_MSG_SIZE + 64];
		cJSON *routed = cJSON_Parse(owner.last);
		const cJSON *id = routed ? cJSON_GetObjectItem(routed, "id") : NULL;
		if (id == NULL || id->type != cJSON_String) return 2;
		snprintf(reply, sizeof(reply), "{\"id\":\"%s\",\"result\":true}", id->valuestring);
		cJSON_Delete(routed);
		if (first < 0) {
			/* faults inside the JSON parser leave the reply unparsed and the request legitimately pending: start behind them */
			arm(1000000);
			cJSON *probe = cJSON_Parse(reply);
			first = alloc_counter;
			disarm();
			cJSON_Delete(probe);
			n = first;
		}
		arm(n);                 /* the n-th allocation from here on fails */
		feed(&owner, reply);
		disarm();
		CHECK(setter.messages <= 1, "fault #%ld: %u responses for one request", n, setter.messages);
		CHECK(cjet_get_alloc_size() == baseline, "fault #%ld: accounting did not return to baseline (%zu != %zu)", n, cjet_get_alloc_size(), baseline);
		if (errors != 0) break;
	}
	test_peer_close(&setter);
	test_peer_close(&owner);
	element_hashtable_delete();
	if (errors != 0) { fprintf(stderr, "REPRODUCED: %d check(s) failed\n", errors); return 1; }
	printf("ok (%ld faults injected)\n", faults_injected);
	return 0;
}
