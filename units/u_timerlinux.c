/* units timer.*: src/linux/timer_linux.c (properties C07, C14). */
#include "common.h"
#include <sys/timerfd.h>
#include "log_stub.h"
#include "linux/timer_linux.c"

static int verif_marker;
static struct eventloop verif_loop;
static unsigned verif_removed, verif_added, verif_closed, verif_created; static int verif_closed_fd; static int verif_add_ret; static int verif_create_ret;
static struct itimerspec verif_armed; static unsigned verif_settime_calls; static int verif_settime_ret;

static enum eventloop_return stub_add(const void *this_ptr, const struct io_event *ev) { (void)ev; __CPROVER_assert(this_ptr == &verif_marker, "C07.timer.add-gets-the-loop-object"); verif_added++; return verif_add_ret ? EL_CONTINUE_LOOP : EL_ABORT_LOOP; }
static void stub_remove(void *this_ptr, const struct io_event *ev) { (void)ev; __CPROVER_assert(this_ptr == &verif_marker, "C07.timer.remove-gets-the-loop-object-not-the-generic-loop"); verif_removed++; }
int socket_close(socket_type sock) { verif_closed++; verif_closed_fd = sock; return 0; }
cjet_ssize_t socket_read(socket_type sock, void *buf, size_t count) { (void)sock; (void)buf; (void)count; return nondet_bool() ? (cjet_ssize_t)count : -1; }
int timerfd_create(int clockid, int flags) { (void)clockid; (void)flags; verif_created++; return verif_create_ret; }
int timerfd_settime(int fd, int flags, const struct itimerspec *new_value, struct itimerspec *old_value) { (void)fd; (void)flags; (void)old_value; verif_armed = *new_value; verif_settime_calls++; return verif_settime_ret; }
char *strerror(int e) { (void)e; return "err"; }

static unsigned verif_handler_calls; static bool verif_handler_cancelled; static void *verif_handler_ctx;
static void stub_handler(void *ctx, bool cancelled) { verif_handler_calls++; verif_handler_cancelled = cancelled; verif_handler_ctx = ctx; }

void h_timer_lifecycle(void)
{
	struct cjet_timer t;
	verif_loop.this_ptr = &verif_marker; verif_loop.add = stub_add; verif_loop.remove = stub_remove;
	verif_create_ret = nondet_int();
	__CPROVER_assume(verif_create_ret >= -1);
	verif_add_ret = nondet_bool();
	int r = cjet_timer_init(&t, &verif_loop);
	if (verif_create_ret == -1) {
		__CPROVER_assert(r == -1 && verif_added == 0, "C07.timer.no-descriptor-no-registration");
	} else if (!verif_add_ret) {
		__CPROVER_assert(r == -1, "C07.timer.registration-failure-reported");
	} else {
		__CPROVER_assert(r == 0 && t.ev.sock == verif_create_ret && verif_added == 1 && t.ev.read_function == timer_read, "C07.timer.initialised-and-registered-once");
#ifdef TIMER_SPEC
		uint64_t ns = nondet_u64();
#else
		uint64_t ns = 5000000000ull;
#endif
		int ctx;
		verif_settime_ret = nondet_bool() ? 0 : -1;
		int s = t.start(&t, ns, stub_handler, &ctx);
		__CPROVER_assert(s == verif_settime_ret && verif_settime_calls == 1, "C14.timer.start-arms-the-descriptor-once");
		__CPROVER_assert(verif_armed.it_interval.tv_sec == 0 && verif_armed.it_interval.tv_nsec == 0, "C14.timer.one-shot");
#ifdef TIMER_SPEC
		/* 64-bit division by a constant: SAT back ends may not finish (thorough tier only) */
		__CPROVER_assert(verif_armed.it_value.tv_nsec >= 0 && verif_armed.it_value.tv_nsec < 1000000000L &&
			(uint64_t)verif_armed.it_value.tv_sec * 1000000000ull + (uint64_t)verif_armed.it_value.tv_nsec == ns, "C14.timer.deadline-is-exactly-the-requested-nanoseconds");
#else
		__CPROVER_assert(verif_armed.it_value.tv_sec == 5 && verif_armed.it_value.tv_nsec == 0, "C14.timer.deadline-of-5s-armed-as-5s");
#endif
		if (nondet_bool()) {
			int c = t.cancel(&t);
			__CPROVER_assert(c == verif_settime_ret && (c != 0 || (verif_handler_calls == 1 && verif_handler_cancelled && verif_handler_ctx == &ctx)), "C14.timer.cancel-disarms-and-tells-the-handler");
			__CPROVER_assert(verif_armed.it_value.tv_sec == 0 && verif_armed.it_value.tv_nsec == 0, "C14.timer.cancel-disarms");
		} else if (nondet_bool()) {
			enum eventloop_return e = timer_read(&t.ev);
			__CPROVER_assert(e == EL_CONTINUE_LOOP && verif_handler_calls <= 1 && (verif_handler_calls == 0 || (!verif_handler_cancelled && verif_handler_ctx == &ctx)), "C14.timer.expiry-calls-the-handler-at-most-once");
		}
		cjet_timer_destroy(&t);
		__CPROVER_assert(verif_removed == 1 && verif_closed == 1 && verif_closed_fd == verif_create_ret, "C07.timer.destroy-deregisters-and-closes-its-descriptor-once");
	}
	VERIF_COVER(r == 0 && verif_handler_calls == 1 && verif_handler_cancelled, "cancelled");
	VERIF_COVER(r == 0 && verif_handler_calls == 1 && !verif_handler_cancelled, "expired");
	VERIF_COVER(r == -1 && verif_create_ret >= 0, "registration failed");
}
