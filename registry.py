"""Registry of verification units.  See DESIGN.md section 2."""

CFGS = {
    "prod": {},
}

TRUSTED_BASE = [
    "cbmc 6.11.0 (goto-cc, goto-instrument --dfcc contract instrumentation, symbolic execution, C semantics for x86_64 little-endian LP64)",
    "SAT back ends CaDiCaL / kissat / MiniSat (UNSAT answers)",
    "contracts and spec functions in /verif/contracts (the specification itself)",
]

PROPERTY_META = {}
NOT_APPLICABLE = {}
NOTES = ("Every check rebuilds its verification units from /repo's working tree (wrapper TUs include the real "
         "source files; config headers are generated from /repo's templates). Exit 2 + INFRA-ERROR means undecided "
         "(tool failure / timeout / vacuity guard), never a violation. Known genuine defects are in known_findings.json.")
UNITS = []


U8_REPLAY = {"c": "replay/utf8_replay.c", "extract": "utf8_extract"}


def unit(name, props, src, **kw):
    d = {"name": name, "props": props, "src": src}
    d.update(kw)
    UNITS.append(d)
    return d


# ------------------------------------------------------------------------------------------
# C18 UTF-8 validator
# ------------------------------------------------------------------------------------------
PROPERTY_META["C18"] = {
    "level": "proof",
    "level_text": ("Unbounded proof: the byte-wise state machine is proved equal to the RFC 3629 reference automaton for every "
                   "checker state and byte (loop-free); every sequence entry point (byte, text, 32/64-bit word fast paths) is proved "
                   "by loop contracts against a ghost automaton that reads the text through its own index, for every length up to "
                   "10^6 bytes and every content; the auto-aligned front end and an arbitrary two-way split are proved by chaining "
                   "the callee contracts, for every alignment class 0..7."),
    "level_note": ("Trusted: CBMC and its little-endian x86_64 memory model (the word fast paths are verified for little-endian "
                   "byte order only), SAT solver, the reference automaton in contracts/utf8.h (written from the RFC 3629 grammar). "
                   "Lengths above 10^6 bytes are outside the contracts' preconditions. 'Same verdict however split' is proved for one "
                   "split point per call chain (induction over more split points is by the same contract, outside the verifier). "
                   "The use on close-frame reasons in websocket.c is covered under C12."),
    "explanation": "C18: contracts on is_byte_valid, cjet_is_byte_sequence_valid, cjet_is_text_valid, cjet_is_word_sequence_valid, cjet_is_word64_sequence_valid, cjet_is_word_sequence_valid_auto_alligned, cjet_init_checker.",
    "not_decided": ["big-endian targets", "texts longer than 10^6 bytes"],
    "assumptions": ["little-endian byte order (x86_64)", "text length <= 1,000,000 bytes (precondition of the sequence contracts)"],
}
unit("utf8.step", ["C18", "C06"], "units/utf8_step.c", enforce="is_byte_valid",
     functions=["is_byte_valid"], min_obligations={"postcondition": 2},
     expect_tags=["C18.step.verdict", "C18.step.state-simulates"], replay=U8_REPLAY, timeout=120)
unit("utf8.bytes", ["C18", "C06"], "units/utf8_bytes.c", entry="h_utf8_bytes",
     enforce="cjet_is_byte_sequence_valid", replace=["is_byte_valid"], loop_contracts=True,
     functions=["cjet_is_byte_sequence_valid"],
     min_obligations={"postcondition": 4, "loop_invariant_step": 1, "loop_invariant_base": 1},
     expect_tags=["C18.bytes.verdict"], replay=U8_REPLAY, timeout=120)
unit("utf8.text", ["C18", "C06"], "units/utf8_bytes.c", entry="h_utf8_text",
     enforce="cjet_is_text_valid", replace=["is_byte_valid"], loop_contracts=True,
     functions=["cjet_is_text_valid"],
     min_obligations={"postcondition": 4, "loop_invariant_step": 1, "loop_invariant_base": 1},
     expect_tags=["C18.text.verdict"], replay=U8_REPLAY, timeout=120)
unit("utf8.word32", ["C18", "C06"], "units/utf8_bytes.c", entry="h_utf8_word32",
     enforce="cjet_is_word_sequence_valid", replace=["is_byte_valid"], loop_contracts=True,
     unwind_loops=[("cjet_is_word_sequence_valid", r"j < sizeof\(tmp\)", 5)],
     functions=["cjet_is_word_sequence_valid"],
     min_obligations={"postcondition": 4, "loop_invariant_step": 1, "loop_invariant_base": 1, "unwind": 1},
     expect_tags=["C18.word32.verdict"], replay=U8_REPLAY, timeout=300)
unit("utf8.word64", ["C18", "C06"], "units/utf8_bytes.c", entry="h_utf8_word64",
     enforce="cjet_is_word64_sequence_valid", replace=["is_byte_valid"], loop_contracts=True,
     unwind_loops=[("cjet_is_word64_sequence_valid", r"j < sizeof\(tmp\)", 9)],
     functions=["cjet_is_word64_sequence_valid"],
     min_obligations={"postcondition": 4, "loop_invariant_step": 1, "loop_invariant_base": 1, "unwind": 1},
     expect_tags=["C18.word64.verdict"], replay=U8_REPLAY, timeout=300)
unit("utf8.auto", ["C18", "C06"], "units/utf8_bytes.c", entry="h_utf8_auto",
     enforce="cjet_is_word_sequence_valid_auto_alligned",
     replace=["cjet_is_byte_sequence_valid", "cjet_is_word_sequence_valid", "cjet_is_word64_sequence_valid", "cjet_init_checker"],
     functions=["cjet_is_word_sequence_valid_auto_alligned"],
     min_obligations={"postcondition": 3, "precondition": 3},
     expect_tags=["C18.auto.verdict"], replay=U8_REPLAY, timeout=300)
unit("utf8.split", ["C18"], "units/utf8_bytes.c", entry="h_utf8_split",
     replace=["cjet_is_byte_sequence_valid", "cjet_init_checker"],
     functions=[], min_obligations={"precondition": 2},
     expect_tags=["C18.split.verdict-equals-whole-text-verdict"], timeout=300)
unit("utf8.init", ["C18"], "units/utf8_step.c", entry="h_utf8_init", enforce="cjet_init_checker",
     functions=["cjet_init_checker"], min_obligations={"postcondition": 1}, timeout=60)
