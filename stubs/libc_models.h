/* Assumed models of libc string functions that CBMC's built-in library lacks (C locale, byte-wise).
 * Trusted base: these are the specification of glibc's behaviour the units rely on. */
#ifndef VERIF_LIBC_MODELS_H
#define VERIF_LIBC_MODELS_H
#include <stddef.h>

static inline int verif_ascii_lower(int c) { return (c >= 'A' && c <= 'Z') ? c + ('a' - 'A') : c; }

char *strstr(const char *haystack, const char *needle)
{
	for (size_t i = 0;; i++) {
		size_t j = 0;
		while (needle[j] != 0 && haystack[i + j] == needle[j]) j++;
		if (needle[j] == 0) return (char *)haystack + i;
		if (haystack[i + j] == 0) return NULL;
	}
}

char *strcasestr(const char *haystack, const char *needle)
{
	for (size_t i = 0;; i++) {
		size_t j = 0;
		while (needle[j] != 0 && haystack[i + j] != 0 &&
		       verif_ascii_lower((unsigned char)haystack[i + j]) == verif_ascii_lower((unsigned char)needle[j])) j++;
		if (needle[j] == 0) return (char *)haystack + i;
		if (haystack[i + j] == 0) return NULL;
	}
}

int strcasecmp(const char *a, const char *b)
{
	for (size_t i = 0;; i++) {
		int ca = verif_ascii_lower((unsigned char)a[i]), cb = verif_ascii_lower((unsigned char)b[i]);
		if (ca != cb) return ca - cb;
		if (ca == 0) return 0;
	}
}

int strncasecmp(const char *a, const char *b, size_t n)
{
	for (size_t i = 0; i < n; i++) {
		int ca = verif_ascii_lower((unsigned char)a[i]), cb = verif_ascii_lower((unsigned char)b[i]);
		if (ca != cb) return ca - cb;
		if (ca == 0) return 0;
	}
	return 0;
}
#endif
