#!/bin/bash
# usage: vc/confirm_seeded.sh <worktree> <n> <property>
# Confirms a sub-agent's seeded change in ITS scratch worktree: patch applies, project builds, the 23 ctest
# executables pass, the demonstration fails with the change and passes without it.  Then stores it under
# /verif/seeded/<property>-<n>/ with what was run.
wt=$1; n=$2; prop=$3
d=$wt/mutants/$n
out=/verif/seeded/$prop-$n
cd $wt || exit 2
git checkout -q -- . 
git apply --check $d/patch.diff || { echo "$prop-$n: PATCH DOES NOT APPLY"; exit 1; }
run=$(grep -v '^\s*$' $d/run.txt | grep -v '^#' | tail -1)
# demo without patch
( eval "$run" ) > /tmp/seed_$prop_$n.clean.log 2>&1; rc_clean=$?
git apply $d/patch.diff
[ -d _build ] || cmake -G Ninja -B _build -DCMAKE_BUILD_TYPE=RelWithDebInfo > /dev/null 2>&1
cmake --build _build > /tmp/seed_$prop_$n.build.log 2>&1; rc_build=$?
ctest --test-dir _build -j8 --timeout 900 > /tmp/seed_$prop_$n.ctest.log 2>&1; rc_test=$?
( eval "$run" ) > /tmp/seed_$prop_$n.patched.log 2>&1; rc_patched=$?
git checkout -q -- .
echo "$prop-$n: build=$rc_build tests=$rc_test demo_clean=$rc_clean demo_patched=$rc_patched"
if [ $rc_build = 0 ] && [ $rc_test = 0 ] && [ $rc_clean = 0 ] && [ $rc_patched != 0 ]; then
  mkdir -p $out
  cp -r $d/* $out/
  python3 - "$out" "$prop" "$run" "$rc_clean" "$rc_patched" <<'PY'
import json,sys
out,prop,run,rc_clean,rc_patched=sys.argv[1:]
m=json.load(open(out+'/meta.json'))
m['property']=prop
m['confirmed_by_main_session']={'applied_in':'the sub-agent\'s scratch worktree of /repo (HEAD of /repo at the time)','build':'cmake --build _build: ok','tests':'ctest --test-dir _build -j8: all 23 executables passed with the change applied','demo_command':run,'demo_exit_without_change':int(rc_clean),'demo_exit_with_change':int(rc_patched)}
json.dump(m,open(out+'/meta.json','w'),indent=1)
PY
  echo "$prop-$n: KEPT"
else
  echo "$prop-$n: NOT KEPT"
fi
