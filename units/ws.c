/* units ws.*: src/websocket.c (property C12) - frame header state machine, frame validation and
 * dispatch, server frame construction, unmasking.  Environment of the unit:
 *  - the buffered reader behind s->connection->br is a recording stub (next read request, bytes written);
 *  - free_connection() is a counting stub ("the connection is released");
 *  - compression.c is the real file, permessage-deflate not negotiated (zlib entry points never reached);
 *  - frame callbacks are recording stubs. */
#include "common.h"
#include <stdlib.h>
#include <string.h>
#include "log_stub.h"
/* isspace: C-locale model instead of glibc's table macro */
#include <ctype.h>
#undef isspace
static int verif_isspace(int c) { return c == ' ' || (c >= '\t' && c <= '\r'); }
#define isspace(c) verif_isspace(c)
#include "zlib_ghost.h"   /* inflate/deflate by assumed contract; reached only by unit comp.sendframe */
#include "websocket.c"
#include "compression.c"
#include "linux/jet_endian.c"

/* the UTF-8 validator is proved under C18; here it is its assumed contract: some verdict, recorded */
static const uint8_t *verif_u8_seq; static size_t verif_u8_len; static bool verif_u8_complete, verif_u8_verdict; static unsigned verif_u8_calls;
void cjet_init_checker(struct cjet_utf8_checker *c) { c->start_byte = 0xFF; c->length = 1; c->next_byte = 1; }
bool cjet_is_byte_sequence_valid(struct cjet_utf8_checker *c, const uint8_t *sequence, size_t length, bool is_complete)
{
	__CPROVER_assert(c->start_byte == 0xFF && c->length == 1 && c->next_byte == 1, "C12.close.utf8-checker-freshly-initialised");
	verif_u8_calls++; verif_u8_seq = sequence; verif_u8_len = length; verif_u8_complete = is_complete;
	return verif_u8_verdict;
}

/* ---- recording environment --------------------------------------------------------------------- */
static unsigned verif_rd_calls;          /* number of read_exactly requests */
static size_t verif_rd_num;              /* last requested size */
static read_handler verif_rd_handler;    /* last requested continuation */
static void *verif_rd_ctx;
static unsigned verif_free_conn;         /* number of free_connection calls */
static unsigned verif_on_error;          /* number of on_error callbacks */
static unsigned verif_wr_calls;          /* number of writev calls (= frames handed to the socket layer) */
static uint8_t verif_wr_hdr[14];         /* header of the last frame written */
static size_t verif_wr_hdr_len;
static const uint8_t *verif_wr_payload;  /* payload pointer / length of the last frame written */
static size_t verif_wr_payload_len;
static uint8_t verif_wr_payload_copy[2]; /* first two payload bytes (close code) */
static int verif_wr_ret;                 /* what the socket layer answers */
static bool verif_wr_payload_readable;   /* the payload window handed to the socket layer lies inside a live buffer (comp.sendframe) */
static bool verif_wr_check_window;

static int stub_read_exactly(void *this_ptr, size_t num, read_handler handler, void *ctx)
{
	(void)this_ptr;
	verif_rd_calls++; verif_rd_num = num; verif_rd_handler = handler; verif_rd_ctx = ctx;
	return 0;
}
static int stub_writev(void *this_ptr, struct socket_io_vector *io_vec, unsigned int count)
{
	(void)this_ptr;
	__CPROVER_assert(count == 2, "C12.send.two-buffers");
	__CPROVER_assert(io_vec[0].iov_len >= 2 && io_vec[0].iov_len <= 14, "C12.send.header-size");
	verif_wr_calls++;
	verif_wr_hdr_len = io_vec[0].iov_len;
	for (unsigned i = 0; i < 14; i++) verif_wr_hdr[i] = i < io_vec[0].iov_len ? ((const uint8_t *)io_vec[0].iov_base)[i] : 0;
	verif_wr_payload = io_vec[1].iov_base;
	verif_wr_payload_len = io_vec[1].iov_len;
	if (verif_wr_check_window) { verif_wr_payload_readable = io_vec[1].iov_len == 0 || __CPROVER_r_ok(io_vec[1].iov_base, io_vec[1].iov_len); if (!verif_wr_payload_readable) return verif_wr_ret; }
	if (io_vec[1].iov_len >= 2) { verif_wr_payload_copy[0] = ((const uint8_t *)io_vec[1].iov_base)[0]; verif_wr_payload_copy[1] = ((const uint8_t *)io_vec[1].iov_base)[1]; }
	return verif_wr_ret;
}
void cjet_get_random_bytes(void *bytes, size_t num_bytes) { uint8_t any[4]; __CPROVER_assert(num_bytes == 4, "random mask size"); memcpy(bytes, any, 4); }
void free_connection(void *context) { (void)context; verif_free_conn++; }
static void stub_on_error(struct websocket *s) { (void)s; verif_on_error++; }

enum { CB_NONE, CB_TEXT_MSG, CB_TEXT_FRAME, CB_BIN_MSG, CB_BIN_FRAME, CB_PING, CB_PONG, CB_CLOSE };
static unsigned verif_cb_calls, verif_cb_kind;
static const void *verif_cb_msg; static size_t verif_cb_len; static bool verif_cb_last; static unsigned verif_cb_code;
static enum websocket_callback_return verif_cb_ret;
#define REC(kind, m, l) do { verif_cb_calls++; verif_cb_kind = (kind); verif_cb_msg = (m); verif_cb_len = (l); } while (0)
static enum websocket_callback_return cb_text_msg(struct websocket *s, char *msg, size_t length) { (void)s; REC(CB_TEXT_MSG, msg, length); return verif_cb_ret; }
static enum websocket_callback_return cb_text_frame(struct websocket *s, char *msg, size_t length, bool last) { (void)s; REC(CB_TEXT_FRAME, msg, length); verif_cb_last = last; return verif_cb_ret; }
static enum websocket_callback_return cb_bin_msg(struct websocket *s, uint8_t *msg, size_t length) { (void)s; REC(CB_BIN_MSG, msg, length); return verif_cb_ret; }
static enum websocket_callback_return cb_bin_frame(struct websocket *s, uint8_t *msg, size_t length, bool last) { (void)s; REC(CB_BIN_FRAME, msg, length); verif_cb_last = last; return verif_cb_ret; }
static enum websocket_callback_return cb_ping(struct websocket *s, uint8_t *msg, size_t length) { (void)s; REC(CB_PING, msg, length); return verif_cb_ret; }
static enum websocket_callback_return cb_pong(struct websocket *s, uint8_t *msg, size_t length) { (void)s; REC(CB_PONG, msg, length); return verif_cb_ret; }
static enum websocket_callback_return cb_close(struct websocket *s, enum ws_status_code c) { (void)s; verif_cb_calls++; verif_cb_kind = CB_CLOSE; verif_cb_code = c; return verif_cb_ret; }

static struct http_connection verif_conn;
/* an arbitrary websocket object in the state the daemon can have after the upgrade: every callback
 * either unset or set, any flag values, compression not negotiated */
static void arbitrary_ws(struct websocket *s, bool daemon_callbacks)
{
	struct websocket any;
	*s = any;
	s->connection = &verif_conn;
	verif_conn.br.this_ptr = NULL;
	verif_conn.br.read_exactly = stub_read_exactly;
	verif_conn.br.writev = stub_writev;
	s->on_error = stub_on_error;
	s->extension_compression.accepted = false;
	s->extension_compression.response = NULL;
	s->upgrade_complete = true;
	s->is_server = true; /* the daemon only ever creates server-side websockets (websocket_peer.c) */
	if (daemon_callbacks) {
		/* what websocket_peer.c:init_websocket_peer configures: text message, close, pong; the rest unset */
		s->text_message_received = cb_text_msg; s->close_received = cb_close; s->pong_received = cb_pong;
		s->text_frame_received = NULL; s->binary_message_received = NULL; s->binary_frame_received = NULL; s->ping_received = NULL;
	} else {
		s->text_message_received = nondet_bool() ? cb_text_msg : NULL;
		s->text_frame_received = nondet_bool() ? cb_text_frame : NULL;
		s->binary_message_received = nondet_bool() ? cb_bin_msg : NULL;
		s->binary_frame_received = nondet_bool() ? cb_bin_frame : NULL;
		s->ping_received = nondet_bool() ? cb_ping : NULL;
		s->pong_received = nondet_bool() ? cb_pong : NULL;
		s->close_received = nondet_bool() ? cb_close : NULL;
	}
	verif_wr_ret = nondet_bool() ? 0 : -1;
	verif_u8_verdict = nondet_bool();
	verif_cb_ret = nondet_bool() ? WS_OK : (nondet_bool() ? WS_CLOSED : WS_ERROR);
}

/* the connection was ended with a close frame carrying `code`, released once, error callback once */
#define CLOSED_WITH(code) (verif_wr_calls >= 1 && verif_wr_hdr[0] == 0x88 && verif_wr_hdr[1] == 2 && \
	verif_wr_payload_len == 2 && verif_wr_payload_copy[0] == (uint8_t)((code) >> 8) && verif_wr_payload_copy[1] == (uint8_t)((code) & 0xff) && \
	verif_free_conn == 1 && verif_on_error == 1)

/* ---- ws.hdr: the frame header state machine (RFC 6455 section 5.2) ----------------------------- */
void h_ws_hdr(void)
{
	struct websocket s;
	arbitrary_ws(&s, false);
	uint8_t buf[8];
	unsigned which = nondet_uint();
	__CPROVER_assume(which < 6);
	size_t len = nondet_bool() ? 0 : (which == 0 || which == 1 ? 1 : which == 2 ? 2 : which == 3 ? 8 : 4);
	uint64_t length0 = s.length;
	unsigned mask0 = s.ws_flags.mask;
	enum bs_read_callback_return r;
	if (which == 5) {
		/* read_mask_or_payload with nothing to read is covered through which == 1 */
		__CPROVER_assume(s.ws_flags.mask == 1 || s.length > 0);
		r = read_mask_or_payload(&s);
		if (mask0 == 1)
			__CPROVER_assert(r == BS_OK && verif_rd_calls == 1 && verif_rd_num == 4 && verif_rd_handler == ws_get_mask && verif_rd_ctx == &s, "C12.hdr.masked-frame-reads-4-byte-mask");
		else
			__CPROVER_assert(r == BS_OK && verif_rd_calls == 1 && verif_rd_num == length0 && verif_rd_handler == ws_get_payload && verif_rd_ctx == &s, "C12.hdr.unmasked-frame-reads-payload");
		VERIF_COVER(mask0 == 0, "unmasked");
		return;
	}
	if (len == 0) {
		switch (which) {
		case 0: r = ws_get_header(&s, buf, 0); break;
		case 1: r = ws_get_first_length(&s, buf, 0); break;
		case 2: r = ws_get_length16(&s, buf, 0); break;
		case 3: r = ws_get_length64(&s, buf, 0); break;
		default: r = ws_get_mask(&s, buf, 0); break;
		}
		__CPROVER_assert(r == BS_CLOSED && verif_rd_calls == 0, "C12.hdr.eof-stops-reading");
		__CPROVER_assert(CLOSED_WITH(WS_CLOSE_GOING_AWAY), "C12.hdr.eof-releases-connection-once");
		VERIF_COVER(which == 3, "eof in 64-bit length");
		return;
	}
	switch (which) {
	case 0:
		r = ws_get_header(&s, buf, len);
		__CPROVER_assert(s.ws_flags.fin == (buf[0] >> 7) && s.ws_flags.rsv == ((buf[0] >> 4) & 7) && s.ws_flags.opcode == (buf[0] & 15), "C12.hdr.first-byte-decoded");
		__CPROVER_assert(r == BS_OK && verif_rd_calls == 1 && verif_rd_num == 1 && verif_rd_handler == ws_get_first_length && verif_rd_ctx == &s, "C12.hdr.then-reads-length-byte");
		VERIF_COVER(s.ws_flags.fin && s.ws_flags.rsv == 5 && s.ws_flags.opcode == 9, "fin rsv=5 ping");
		break;
	case 1: {
		r = ws_get_first_length(&s, buf, len);
		unsigned l7 = buf[0] & 127;
		__CPROVER_assert(s.ws_flags.mask == (buf[0] >> 7), "C12.hdr.mask-bit-decoded");
		if (l7 < 126) {
			__CPROVER_assert(s.length == l7, "C12.hdr.7bit-length-decoded");
			if (buf[0] >> 7)
				__CPROVER_assert(r == BS_OK && verif_rd_calls == 1 && verif_rd_num == 4 && verif_rd_handler == ws_get_mask, "C12.hdr.7bit-masked-next");
			else if (l7 > 0)
				__CPROVER_assert(r == BS_OK && verif_rd_calls == 1 && verif_rd_num == l7 && verif_rd_handler == ws_get_payload, "C12.hdr.7bit-unmasked-next");
		} else if (l7 == 126) {
			__CPROVER_assert(r == BS_OK && verif_rd_calls == 1 && verif_rd_num == 2 && verif_rd_handler == ws_get_length16 && verif_rd_ctx == &s, "C12.hdr.126-reads-16bit-length");
		} else {
			__CPROVER_assert(r == BS_OK && verif_rd_calls == 1 && verif_rd_num == 8 && verif_rd_handler == ws_get_length64 && verif_rd_ctx == &s, "C12.hdr.127-reads-64bit-length");
		}
		VERIF_COVER(l7 == 125 && (buf[0] >> 7), "125 masked");
		VERIF_COVER(l7 == 126, "126");
		VERIF_COVER(l7 == 127, "127");
		break;
	}
	case 2:
		__CPROVER_assume(s.ws_flags.mask == 1);
		r = ws_get_length16(&s, buf, len);
		__CPROVER_assert(s.length == (((uint64_t)buf[0] << 8) | buf[1]), "C12.hdr.16bit-length-big-endian");
		__CPROVER_assert(r == BS_OK && verif_rd_calls == 1 && verif_rd_num == 4 && verif_rd_handler == ws_get_mask, "C12.hdr.16bit-next");
		VERIF_COVER(s.length == 0x1234, "0x1234");
		break;
	case 3:
		__CPROVER_assume(s.ws_flags.mask == 1);
		r = ws_get_length64(&s, buf, len);
		__CPROVER_assert(s.length == (((uint64_t)buf[0] << 56) | ((uint64_t)buf[1] << 48) | ((uint64_t)buf[2] << 40) | ((uint64_t)buf[3] << 32) |
			((uint64_t)buf[4] << 24) | ((uint64_t)buf[5] << 16) | ((uint64_t)buf[6] << 8) | buf[7]), "C12.hdr.64bit-length-big-endian");
		__CPROVER_assert(r == BS_OK && verif_rd_calls == 1 && verif_rd_num == 4 && verif_rd_handler == ws_get_mask, "C12.hdr.64bit-next");
		VERIF_COVER(s.length == 0x0102030405060708ull, "0x0102030405060708");
		break;
	default:
		__CPROVER_assume(s.length > 0);
		r = ws_get_mask(&s, buf, len);
		__CPROVER_assert(s.mask[0] == buf[0] && s.mask[1] == buf[1] && s.mask[2] == buf[2] && s.mask[3] == buf[3], "C12.hdr.mask-copied");
		__CPROVER_assert(r == BS_OK && verif_rd_calls == 1 && verif_rd_num == length0 && verif_rd_handler == ws_get_payload && verif_rd_ctx == &s, "C12.hdr.mask-then-payload");
		VERIF_COVER(length0 > 70000, "large payload");
		break;
	}
}

/* ---- ws.send: server/client frame construction (RFC 6455 section 5.2) ---------------------------- */
void h_ws_send(void)
{
	struct websocket s;
	arbitrary_ws(&s, false);
	__CPROVER_assume(s.is_server);
	size_t length;
	__CPROVER_assume(length <= (size_t)1 << 40);
	uint8_t payload_obj[2];
	uint8_t *payload = payload_obj; /* a server never reads or writes the payload bytes; only the first two are recorded by the stub */
	unsigned type = nondet_uint();
	__CPROVER_assume(type == WS_TEXT_FRAME || type == WS_BINARY_FRAME || type == WS_PING_FRAME || type == WS_PONG_FRAME || type == WS_CLOSE_FRAME);
	int r = send_frame(&s, payload, length, type);
	__CPROVER_assert(verif_wr_calls == 1 && r == verif_wr_ret, "C12.send.one-gathered-write-result-propagated");
	__CPROVER_assert(verif_wr_hdr[0] == (0x80 | type), "C12.send.fin-set-rsv-clear-opcode");
	__CPROVER_assert((verif_wr_hdr[1] & 0x80) == 0, "C12.send.server-frames-unmasked");
	__CPROVER_assert(verif_wr_payload == payload && verif_wr_payload_len == length, "C12.send.payload-untouched");
	unsigned l7 = verif_wr_hdr[1] & 127;
	if (length < 126)
		__CPROVER_assert(l7 == length && verif_wr_hdr_len == 2, "C12.send.minimal-length-7bit");
	else if (length < 65536)
		__CPROVER_assert(l7 == 126 && verif_wr_hdr_len == 4 && ((verif_wr_hdr[2] << 8) | verif_wr_hdr[3]) == length, "C12.send.minimal-length-16bit");
	else
		__CPROVER_assert(l7 == 127 && verif_wr_hdr_len == 10 &&
			(((uint64_t)verif_wr_hdr[2] << 56) | ((uint64_t)verif_wr_hdr[3] << 48) | ((uint64_t)verif_wr_hdr[4] << 40) | ((uint64_t)verif_wr_hdr[5] << 32) |
			 ((uint64_t)verif_wr_hdr[6] << 24) | ((uint64_t)verif_wr_hdr[7] << 16) | ((uint64_t)verif_wr_hdr[8] << 8) | verif_wr_hdr[9]) == length, "C12.send.minimal-length-64bit");
	VERIF_COVER(length == 125, "125");
	VERIF_COVER(length == 126, "126");
	VERIF_COVER(length == 65535, "65535");
	VERIF_COVER(length == 65536, "65536");
}

/* ---- ws.frame: frame validation and dispatch (RFC 6455 sections 5.4, 5.5, 7.4) -------------------
 * ws_handle_frame from an arbitrary header state, arbitrary fragmentation state, payload of
 * arbitrary length (content matters only for close frames: 2 code bytes + reason, judged by the UTF-8
 * validator's assumed contract).  WS_DAEMON_CB selects the callback set: exactly what
 * websocket_peer.c configures (1) or an arbitrary subset (0). */
#ifndef WS_DAEMON_CB
#define WS_DAEMON_CB 1
#endif
static bool ws_code_valid(unsigned c) /* RFC 6455 7.4.1/7.4.2 as the daemon reads it: 1000-1003, 1007-1011, 3000-4999 */
{
	return (c >= 1000 && c <= 1003) || (c >= 1007 && c <= 1011) || (c >= 3000 && c <= 4999);
}
void h_ws_frame(void)
{
	struct websocket s;
	arbitrary_ws(&s, WS_DAEMON_CB);
	uint8_t frame[4];
	size_t length;
	__CPROVER_assume(length <= ((size_t)1 << 32));
	/* representation invariant of the fragmentation state */
	__CPROVER_assume(s.ws_flags.is_fragmented ? (s.ws_flags.frag_opcode == WS_TEXT_FRAME || s.ws_flags.frag_opcode == WS_BINARY_FRAME)
	                                          : s.ws_flags.frag_opcode == WS_CONTINUATION_FRAME);
	__CPROVER_assume(s.ws_flags.is_frag_compressed == 0);
	unsigned fin = s.ws_flags.fin, rsv = s.ws_flags.rsv, op = s.ws_flags.opcode, fragmented = s.ws_flags.is_fragmented, frag_op = s.ws_flags.frag_opcode;
	enum websocket_callback_return r = ws_handle_frame(&s, frame, length);

	bool control = op >= 8;
	bool reserved = (op >= 3 && op <= 7) || op >= 11;
	bool protocol_error = rsv != 0 || reserved || (control && !fin) || (control && op != 8 && length > 125) ||
		(op == 0 && !fragmented) || ((op == 1 || op == 2) && fragmented) ||
		(op == 8 && length == 1);
	unsigned code = ((unsigned)frame[0] << 8) | frame[1];
	if (protocol_error) {
		__CPROVER_assert(r == WS_CLOSED && CLOSED_WITH(WS_CLOSE_PROTOCOL_ERROR) && verif_cb_calls == 0, "C12.frame.protocol-violation-closes-1002");
	} else if (op == 9) {
		/* ping: answered by a pong with the identical payload */
		__CPROVER_assert(verif_wr_calls == 1 && verif_wr_hdr[0] == 0x8A && verif_wr_payload == frame && verif_wr_payload_len == length &&
			(verif_wr_hdr[1] & 127) == length, "C12.frame.ping-answered-by-identical-pong");
		__CPROVER_assert(verif_free_conn == 0 && verif_on_error == 0, "C12.frame.ping-keeps-connection");
	} else if (op == 10) {
		__CPROVER_assert(verif_wr_calls == 0 && verif_free_conn == 0 && (s.pong_received == NULL ? verif_cb_calls == 0 : (verif_cb_calls == 1 && verif_cb_kind == CB_PONG)), "C12.frame.pong-only-reported");
	} else if (op == 8) {
		bool bad_code = (length >= 2 && !ws_code_valid(code)) || length > 125; /* oversized close frames: 1002 */
		bool bad_reason = length > 2 && !verif_u8_verdict;
		if (length > 2)
			__CPROVER_assert(verif_u8_calls == 1 && verif_u8_seq == frame + 2 && verif_u8_len == length - 2 && verif_u8_complete, "C12.close.reason-validated-as-complete-utf8");
		if (bad_code || bad_reason) {
			__CPROVER_assert(r == WS_CLOSED && verif_cb_calls == 0 &&
				((bad_code && CLOSED_WITH(WS_CLOSE_PROTOCOL_ERROR)) || (bad_reason && CLOSED_WITH(WS_CLOSE_UNSUPPORTED_DATA))), "C12.close.invalid-code-or-reason-closes-with-matching-status");
		} else {
			__CPROVER_assert(r == WS_CLOSED && verif_wr_calls == 1 && verif_wr_hdr[0] == 0x88 && verif_wr_payload_len == 2 &&
				verif_wr_payload_copy[0] == (1000 >> 8) && verif_wr_payload_copy[1] == (1000 & 0xff) && verif_free_conn == 1 && verif_on_error == 0,
				"C12.close.valid-close-is-echoed-and-connection-released-once");
			__CPROVER_assert(s.close_received == NULL ? verif_cb_calls == 0 : (verif_cb_calls == 1 && verif_cb_kind == CB_CLOSE && verif_cb_code == (length >= 2 ? code : 1000)), "C12.close.reported-with-its-code");
		}
	} else if (fin && !fragmented) {
		/* unfragmented data message */
		bool has_cb = op == 1 ? s.text_message_received != NULL : s.binary_message_received != NULL;
		if (has_cb) {
			__CPROVER_assert(verif_cb_calls == 1 && verif_cb_kind == (op == 1 ? CB_TEXT_MSG : CB_BIN_MSG) && verif_cb_msg == frame && verif_cb_len == length, "C12.frame.data-message-delivered-unchanged");
			__CPROVER_assert(verif_cb_ret != WS_OK || (r == WS_OK && verif_wr_calls == 0 && verif_free_conn == 0), "C12.frame.accepted-message-keeps-connection");
		} else {
			__CPROVER_assert(r == WS_CLOSED && CLOSED_WITH(WS_CLOSE_UNSUPPORTED) && verif_cb_calls == 0, "C12.frame.unsupported-data-type-closes-1003");
		}
	} else {
		/* a fragment of a data message (start, middle or end): processed or refused with a close frame */
		unsigned kind = (op == 0 ? frag_op : op);
		bool has_cb = kind == 1 ? s.text_frame_received != NULL : s.binary_frame_received != NULL;
		if (has_cb) {
			__CPROVER_assert(verif_cb_calls == 1 && verif_cb_kind == (kind == 1 ? CB_TEXT_FRAME : CB_BIN_FRAME) && verif_cb_msg == frame && verif_cb_len == length &&
				verif_cb_last == (fin != 0), "C12.frame.fragment-delivered-unchanged");
			__CPROVER_assert(verif_cb_ret != WS_OK || (s.ws_flags.is_fragmented == !fin && (fin ? s.ws_flags.frag_opcode == 0 : s.ws_flags.frag_opcode == kind)), "C12.frame.fragmentation-state-tracked");
		} else {
			__CPROVER_assert(r == WS_CLOSED && verif_cb_calls == 0 && verif_wr_calls == 1 && verif_wr_hdr[0] == 0x88 && verif_free_conn == 1, "C12.frame.fragment-without-handler-refused-with-close-frame");
		}
	}
	VERIF_COVER(protocol_error && rsv != 0, "rsv set");
	VERIF_COVER(!protocol_error && op == 9 && length == 125, "ping 125");
	VERIF_COVER(!protocol_error && op == 8 && length == 0, "empty close");
	VERIF_COVER(!protocol_error && op == 8 && length == 30 && code == 3000, "close 3000 with reason");
	VERIF_COVER(!protocol_error && op == 1 && fin && !fragmented && r == WS_OK, "text message accepted");
	VERIF_COVER(!protocol_error && op == 2 && fin && !fragmented, "binary message");
	VERIF_COVER(!protocol_error && op == 1 && !fin, "first text fragment");
	VERIF_COVER(!protocol_error && op == 0 && fin && frag_op == 2, "last binary fragment");
}

/* ---- ws.payload: ws_get_payload (mask requirement, EOF, mapping of the dispatch result) ------------
 * unmask_payload is cut off here (unit ws.unmask). */
void h_ws_payload(void)
{
	struct websocket s;
	arbitrary_ws(&s, true);
	uint8_t buf[4];
	size_t len;
	unsigned mask = s.ws_flags.mask;
	uint64_t want = s.length;
	/* the dispatch itself is verified in ws.frame.*; here a pong frame stands for "some frame" whose
	 * handler returns WS_OK, WS_CLOSED or WS_ERROR */
	__CPROVER_assume(s.ws_flags.opcode == WS_PONG_FRAME && s.ws_flags.fin == 1 && s.ws_flags.rsv == 0 && len <= 125 && !s.ws_flags.is_fragmented);
	enum bs_read_callback_return r = ws_get_payload(&s, buf, len);
	if (len == 0 && want != 0) {
		__CPROVER_assert(r == BS_CLOSED && CLOSED_WITH(WS_CLOSE_GOING_AWAY) && verif_rd_calls == 0, "C12.payload.eof-closes-1001");
	} else if (mask == 0) {
		__CPROVER_assert(r == BS_CLOSED && CLOSED_WITH(WS_CLOSE_PROTOCOL_ERROR) && verif_rd_calls == 0, "C12.payload.unmasked-client-frame-closes-1002");
	} else {
		__CPROVER_assert(verif_cb_calls == 1, "C12.payload.frame-dispatched-once");
		if (verif_cb_ret == WS_OK)
			__CPROVER_assert(r == BS_OK && verif_rd_calls == 1 && verif_rd_num == 1 && verif_rd_handler == ws_get_header && verif_rd_ctx == &s && verif_free_conn == 0, "C12.payload.continues-with-next-header");
		else if (verif_cb_ret == WS_CLOSED)
			__CPROVER_assert(r == BS_CLOSED && verif_rd_calls == 0, "C12.payload.closed-stops-reading");
		else
			__CPROVER_assert(r == BS_CLOSED && verif_rd_calls == 0 && CLOSED_WITH(WS_CLOSE_INTERNAL_ERROR), "C12.payload.handler-error-closes-1011");
	}
	VERIF_COVER(mask == 0 && len > 0, "unmasked");
	VERIF_COVER(mask == 1 && r == BS_OK, "continues");
	VERIF_COVER(mask == 1 && r == BS_CLOSED, "stops");
}

/* ---- ws.unmask: unmask_payload (RFC 6455 section 5.3) --------------------------------------------
 * BOUNDED: payload length <= WS_UNMASK_MAX, every start alignment 0..7 inside its allocation, every
 * mask and content.  Ghost indices j (inside) and k (outside) generalise over all positions. */
#ifndef WS_UNMASK_MAX
#define WS_UNMASK_MAX 20
#endif
void h_ws_unmask(void)
{
	uint8_t mem[WS_UNMASK_MAX + 16], orig[WS_UNMASK_MAX + 16];
	uint8_t mask[4];
	unsigned align = nondet_uint();
	size_t length, j, k;
	__CPROVER_assume(align < 8 && length <= WS_UNMASK_MAX);
	memcpy(orig, mem, sizeof(mem));
	unmask_payload(mem + align, length, mask);
	__CPROVER_assume(j < length);
	__CPROVER_assert(mem[align + j] == (orig[align + j] ^ mask[j % 4]), "C12.unmask.every-payload-byte-xored-with-mask-j-mod-4");
	__CPROVER_assume(k < sizeof(mem) && (k < align || k >= align + length));
	__CPROVER_assert(mem[k] == orig[k], "C12.unmask.nothing-outside-the-payload-written");
	VERIF_COVER(length == WS_UNMASK_MAX && align == 3, "long unaligned payload");
	VERIF_COVER(length == 3, "short payload");
	VERIF_COVER(length == 8 && align == 0, "exactly one aligned word");
}

/* ---- ws.version: HTTP version gate of the upgrade (RFC 6455 4.2.1: HTTP/1.1 or higher) ------------------------- */
void h_ws_version(void)
{
	struct http_parser p;
	unsigned short major = nondet_u16(), minor = nondet_u16();
	p.http_major = major; p.http_minor = minor;
	int r = check_http_version(&p);
	bool ok = major > 1 || (major == 1 && minor >= 1);
	__CPROVER_assert((r == 0) == ok && (r == 0 || r == -1), "C13.version.upgrade-only-for-http-1.1-or-higher");
	VERIF_COVER(major == 0 && minor == 9 && r == -1, "HTTP/0.9 refused");
	VERIF_COVER(major == 1 && minor == 1 && r == 0, "HTTP/1.1 accepted");
}

/* ---- ext.offer: parsing of a Sec-WebSocket-Extensions value (properties C19, C06) -----------------------------
 * BOUNDED: header values of at most EXT_MAX bytes, every content.  The value is an exact-size heap object, so any
 * read outside [at, at+length) is a pointer-check failure; the response buffer is the real 129-byte allocation. */
#ifndef EXT_MAX
#define EXT_MAX 48
#endif
void alloc_compression(struct websocket *ws);
void h_ext_offer(void)
{
	struct websocket s;
	arbitrary_ws(&s, true);
	s.extension_compression.name = "permessage-deflate";
	s.extension_compression.compression_level = nondet_uint();
	__CPROVER_assume(s.extension_compression.compression_level <= 3);
	s.extension_compression.client_max_window_bits = nondet_bool() ? 15 : 8;
	s.extension_compression.server_max_window_bits = nondet_bool() ? 15 : 9;
	s.extension_compression.client_no_context_takeover = nondet_bool();
	s.extension_compression.server_no_context_takeover = nondet_bool();
	unsigned cmax0 = s.extension_compression.client_max_window_bits, smax0 = s.extension_compression.server_max_window_bits;
#ifdef EXT_SINGLE
	/* one offer (no comma) of exactly EXT_MAX bytes; shorter offers are the ones padded with white space */
	size_t length = EXT_MAX;
#else
	size_t length = nondet_size();
	__CPROVER_assume(length >= 1 && length <= EXT_MAX);
#endif
	/* the header value occupies the LAST `length` bytes of a constant-size object (cbmc's heap model is far cheaper for
	 * constant sizes): a read behind the value is a read outside the object and fails a bounds obligation */
	static char verif_hdr[EXT_MAX];
	for (unsigned i = 0; i < EXT_MAX; i++) {
		verif_hdr[i] = (char)nondet_u8();
#ifdef EXT_SINGLE
		__CPROVER_assume(verif_hdr[i] != ',');
#endif
	}
	char *value = verif_hdr + (EXT_MAX - length);
	check_websocket_extensions(&s, value, length);
	if (s.extension_compression.accepted) {
		__CPROVER_assert(s.extension_compression.response != NULL && strlen(s.extension_compression.response) <= 128, "C19.ext.response-fits-its-buffer");
		__CPROVER_assert(s.extension_compression.client_max_window_bits >= 8 && s.extension_compression.client_max_window_bits <= 15 &&
			s.extension_compression.server_max_window_bits >= 9 && s.extension_compression.server_max_window_bits <= 15, "C19.ext.negotiated-window-bits-in-the-legal-range");
		__CPROVER_assert(s.extension_compression.server_max_window_bits <= smax0, "C19.ext.server-window-never-larger-than-configured");
		(void)cmax0;
		free(s.extension_compression.response);
	}
	VERIF_COVER(s.extension_compression.accepted, "an offer is accepted");
	VERIF_COVER(!s.extension_compression.accepted, "offer refused");
}

/* ---- comp.sendframe (C19): an outgoing text/binary message with permessage-deflate negotiated ----------------
 * send_frame -> websocket_compress -> deflate (ghost, see stubs/zlib_ghost.h).  The complete compressed form of the
 * message is verif_need bytes (incl. the 00 00 FF FF tail); zlib decides how many - any value from 5 up to the
 * assumed bound len + len/8 + len/64 + 16 (deflateBound plus flush marker). */
#ifndef COMP_L
#define COMP_L 8
#endif
static z_stream verif_defl; static z_stream *const verif_deflp = &verif_defl;
void h_comp_sendframe(void)
{
	struct websocket s;
	arbitrary_ws(&s, false);
	__CPROVER_assume(s.is_server);
	s.extension_compression.accepted = true;
	s.extension_compression.compression_level = 1 + (nondet_uint() % 3);
	s.extension_compression.strm_comp = &verif_deflp;
#ifdef COMP_LEN_FIXED
	/* a large message of fixed size whose compressed form may fall on either side of the 126 / 65536 header boundaries */
	size_t length = COMP_LEN_FIXED;
	uint8_t *payload = malloc(COMP_LEN_FIXED);
	__CPROVER_assume(payload != NULL);
#else
	size_t length = nondet_size();
	__CPROVER_assume(length <= COMP_L);
	uint8_t payload[COMP_L + 1];
#endif
	unsigned type = nondet_bool() ? WS_TEXT_FRAME : WS_BINARY_FRAME;
	verif_need = nondet_size();
	__CPROVER_assume(verif_need >= 5 && verif_need <= length + (length >> 3) + (length >> 6) + 16);
	verif_wr_check_window = true;
	int r = send_frame(&s, payload, length, type);
	if (verif_wr_calls > 0) {
		__CPROVER_assert(verif_wr_payload_readable, "C19.send.payload-window-lies-inside-the-compression-buffer");
		__CPROVER_assert(verif_wr_calls == 1 && verif_deflate_complete && verif_wr_payload_len == verif_need - 4, "C19.send.frame-carries-the-complete-block-without-its-tail");
		/* the header announces the number of bytes that follow (the COMPRESSED size), minimally encoded (RFC 6455 5.2) */
		size_t pl = verif_wr_payload_len; unsigned l7 = verif_wr_hdr[1] & 127;
		bool len_ok = pl < 126 ? (l7 == pl && verif_wr_hdr_len == 2)
			: pl < 65536 ? (l7 == 126 && verif_wr_hdr_len == 4 && (((size_t)verif_wr_hdr[2] << 8) | verif_wr_hdr[3]) == pl)
			: (l7 == 127 && verif_wr_hdr_len == 10 && verif_wr_hdr[2] == 0 && verif_wr_hdr[3] == 0 && verif_wr_hdr[4] == 0 && verif_wr_hdr[5] == 0 &&
			   ((((size_t)verif_wr_hdr[6]) << 24) | ((size_t)verif_wr_hdr[7] << 16) | ((size_t)verif_wr_hdr[8] << 8) | verif_wr_hdr[9]) == pl);
		__CPROVER_assert(verif_wr_hdr[0] == (0x80 | 0x40 | type) && (verif_wr_hdr[1] & 0x80) == 0 && len_ok, "C19.send.compressed-frame-sets-rsv1-and-the-compressed-length");
	}
	/* RFC 7692 7.1.1.1: with server_no_context_takeover the peer may inflate every message with a fresh window, so each
	 * message must be independent of the previous ones (Z_FULL_FLUSH); otherwise the window carries over (Z_SYNC_FLUSH) */
	if (verif_deflate_calls > 0)
		__CPROVER_assert(verif_deflate_calls == 1 && verif_deflate_flush == (s.extension_compression.server_no_context_takeover ? Z_FULL_FLUSH : Z_SYNC_FLUSH), "C19.send.context-is-dropped-exactly-when-server-no-context-takeover-was-negotiated");
	__CPROVER_assert(verif_wr_calls == 1 || r < 0, "C19.send.unsent-message-is-reported-as-error");
	__CPROVER_assert(verif_deflate_complete || verif_wr_calls == 0, "C19.send.incomplete-or-failed-compression-sends-nothing");
#ifdef COMP_LEN_FIXED
	free(payload);
#endif
#ifdef COMP_LEN_FIXED
	VERIF_COVER(verif_wr_calls == 1 && verif_wr_payload_len == 126, "compressed form just reaches the 16-bit length form");
	VERIF_COVER(verif_wr_calls == 1 && verif_wr_payload_len == 125, "compressed form fits the 7-bit length form");
#else
	VERIF_COVER(verif_wr_calls == 1 && length == 1, "one-byte message sent");
	VERIF_COVER(verif_wr_calls == 1 && length == 0, "empty message sent");
	VERIF_COVER(verif_wr_calls == 1 && length == COMP_L && verif_need == length + (length >> 3) + (length >> 6) + 16, "worst-case expansion sent");
#endif
	VERIF_COVER(verif_deflate_calls == 1 && !verif_deflate_complete, "deflate failed or ran out of space");
}
