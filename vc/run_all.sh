#!/bin/bash
# runs every claimed check (quick tier by default), N properties at a time (default 1); prints exit code and wall time
# usage: vc/run_all.sh [quick|thorough] [parallel properties]
tier=${1:-quick}; par=${2:-1}
cd "$(dirname "$0")/.."
one() {
  p=$1; tier=$2
  s=$(date +%s); ./check $p --tier $tier > /tmp/all_${tier}_$p.log 2>&1; rc=$?; e=$(date +%s)
  echo "$p rc=$rc $((e-s))s $(grep -a -c KNOWN-FINDING /tmp/all_${tier}_$p.log) known $(grep -a -c '^VIOLATION' /tmp/all_${tier}_$p.log) violations $(grep -a -c '^UNDECIDED' /tmp/all_${tier}_$p.log) undecided"
}
export -f one
python3 -c "import json;print('\n'.join(c['property_id'] for c in json.load(open('MANIFEST.json'))['checks']))" | xargs -P $par -I{} bash -c "one {} $tier"
