/* logging is not part of any property: bodies that evaluate nothing (the arguments are still evaluated at the call sites) */
#ifndef VERIF_LOG_STUB_H
#define VERIF_LOG_STUB_H
void log_err(const char *format, ...) { (void)format; }
void log_warn(const char *format, ...) { (void)format; }
void log_info(const char *format, ...) { (void)format; }
#endif
