/* units grp.*: src/groups.c (property C08: group names mapped to bits; access = non-empty intersection). */
#include "common.h"
#include <string.h>
#include "log_stub.h"
#include "cjson_model.h"
#include "groups.c"

#ifndef G_MAX
#define G_MAX 4
#endif
static cJSON verif_all, verif_g[G_MAX];
static char verif_gname[G_MAX][3];
static cJSON verif_pg_arr, verif_pg[2];
static char verif_pgname[2][3];

static void link_list(cJSON *arr, cJSON *nodes, unsigned n)
{
	arr->type = cJSON_Array; arr->child = n > 0 ? &nodes[0] : NULL; arr->next = arr->prev = NULL; arr->string = NULL; arr->valuestring = NULL;
	for (unsigned i = 0; i < n; i++) { nodes[i].next = i + 1 < n ? &nodes[i + 1] : NULL; nodes[i].prev = NULL; nodes[i].child = NULL; nodes[i].string = NULL; }
}

void h_grp_bits(void)
{
	unsigned n = nondet_uint(), m = nondet_uint(), j = nondet_uint();
	__CPROVER_assume(n <= G_MAX && m <= 2 && j < 32);
#ifdef G_FULL
	__CPROVER_assume(n == G_MAX && m == 1); /* the full table: reaches the 32nd group */
#endif
	for (unsigned i = 0; i < G_MAX; i++) { verif_gname[i][0] = (char)nondet_u8(); verif_gname[i][1] = (char)nondet_u8(); verif_gname[i][2] = 0; verif_g[i].type = cJSON_String; verif_g[i].valuestring = verif_gname[i]; __CPROVER_assume(verif_gname[i][0] != 0); }
	link_list(&verif_all, verif_g, n);
	all_groups = nondet_bool() ? &verif_all : NULL;
	for (unsigned i = 0; i < 2; i++) { verif_pgname[i][0] = (char)nondet_u8(); verif_pgname[i][1] = (char)nondet_u8(); verif_pgname[i][2] = 0; verif_pg[i].valuestring = verif_pgname[i]; int t = nondet_int(); __CPROVER_assume(t == cJSON_String || t == cJSON_Number || t == cJSON_True); verif_pg[i].type = t; __CPROVER_assume(verif_pgname[i][0] != 0); }
	link_list(&verif_pg_arr, verif_pg, m);
	bool arr_ok = nondet_bool();
	if (!arr_ok) verif_pg_arr.type = cJSON_Object;
	const cJSON *arg = nondet_bool() ? &verif_pg_arr : NULL;
	group_t g = get_groups(arg);
	bool want = false;
	if (arg != NULL && arr_ok && all_groups != NULL && j < n)
		for (unsigned i = 0; i < m; i++)
			if (verif_pg[i].type == cJSON_String && verif_pgname[i][0] == verif_gname[j][0] && verif_pgname[i][1] == verif_gname[j][1]) want = true; /* names of 1 or 2 characters: equal iff both bytes equal */
	__CPROVER_assert((((g >> j) & 1u) != 0) == want, "C08.grp.bit-j-set-iff-a-listed-name-equals-registered-group-j");
	group_t has = nondet_u32(), wants = nondet_u32();
	__CPROVER_assert(has_access(has, wants) == (all_groups == NULL || (has & wants) != 0), "C08.grp.access-is-non-empty-intersection");
	VERIF_COVER(want && j == G_MAX - 1, "the last group");
#ifndef G_FULL
	VERIF_COVER(want && j == 0 && m == 2, "first group, two listed");
#endif
	VERIF_COVER(!want && g != 0, "other bits");
	VERIF_COVER(!want && j < n && m > 0 && verif_pg[0].type == cJSON_String && verif_pgname[0][0] == verif_gname[j][0] && verif_pgname[0][1] == 0 && verif_gname[j][1] != 0, "listed name is a proper prefix of group j");
}
