/* units fx.*: subscription bookkeeping and event delivery of src/fetch.c (properties C01, C11, C08). */
#include "common.h"
#include <stdlib.h>
#include <string.h>
#include "log_stub.h"
#include "libc_models.h"
#define CJ_DEPTH 2   /* notification: root -> params -> leaves */
#include "cjson_model.h"
#include "fetch.c"

void *memmem(const void *h, size_t hl, const void *n, size_t nl) { (void)h; (void)hl; (void)n; (void)nl; return NULL; }
static bool verif_alloc_fail;
void *cjet_malloc(size_t size) { return malloc(size); }
void *cjet_calloc(size_t nmemb, size_t size) { if (verif_alloc_fail) return NULL; return calloc(nmemb, size); }
void cjet_free(void *ptr) { free(ptr); }
char *duplicate_string(const char *s) { (void)s; return NULL; }   /* rule operands cannot be copied: a rule-carrying request ends in create_fetch's failure path */
int jet_strcasecmp(const char *a, const char *b) { return strcasecmp(a, b); }
int jet_strncasecmp(const char *a, const char *b, size_t n) { return strncasecmp(a, b, n); }
const char *jet_strcasestr(const char *a, const char *b) { return strcasestr(a, b); }
void log_peer_err(const struct peer *p, const char *fmt, ...) { (void)p; (void)fmt; }
const char *get_peer_name(const struct peer *p) { (void)p; return "peer"; }
bool has_access(group_t has, group_t wants) { return (has & wants) != 0; }
bool element_is_fetch_only(const struct element *e) { return (e->flags & FETCH_ONLY_FLAG) != 0; }
static struct list_head verif_peer_list;
const struct list_head *get_peer_list(void) { return &verif_peer_list; }
static unsigned verif_responses_built;   /* responses handed back to the caller (each must be returned or deleted exactly once) */
static cJSON *verif_new_response(void) { bool saved = verif_cj_may_fail; verif_cj_may_fail = false; cJSON *r = cJSON_CreateObject(); verif_cj_may_fail = saved; if (r != NULL) verif_responses_built++; return r; }
cJSON *create_error_response_from_request(const struct peer *p, const cJSON *request, int code, const char *tag, const char *reason) { (void)p; (void)request; (void)code; (void)tag; (void)reason; return nondet_bool() ? verif_new_response() : NULL; }
cJSON *create_success_response_from_request(const struct peer *p, const cJSON *request) { (void)p; (void)request; return NULL; }
static bool verif_result_was_null; static unsigned verif_result_entries;
cJSON *create_result_response_from_request(const struct peer *p, const cJSON *request, cJSON *result, const char *t)
{
	(void)p; (void)request; (void)t;
	verif_result_was_null = result == NULL; verif_result_entries = 0;
	if (result != NULL) for (const cJSON *c = result->child; c != NULL; c = c->next) verif_result_entries++;
	cJSON_Delete(result);   /* ownership contract proved by resp.from_request / resp.result */
	return result != NULL && nondet_bool() ? verif_new_response() : NULL;
}

/* three subscriber peers; each one's socket either accepts or fails (fixed per run, arbitrary) */
#define NP 3
static struct peer verif_peer[NP]; static bool verif_peer_fails[NP]; static unsigned verif_sent[NP], verif_attempts[NP];
static char verif_last_event_buf[NP][8]; static const char *verif_last_event[NP]; static char verif_last_path0[NP]; static bool verif_last_has_value[NP]; static int verif_last_method_type[NP]; static bool verif_last_fetch_only[NP];
static int stub_send(const struct peer *p, char *rendered, size_t len)
{
	(void)rendered; (void)len;
	unsigned k = (unsigned)(p - verif_peer);
	__CPROVER_assert(k < NP, "harness: message goes to a known peer");
	verif_attempts[k]++;
	const cJSON *m = verif_cj_last_printed, *params = cJSON_GetObjectItem(m, "params"), *method = cJSON_GetObjectItem(m, "method");
	const cJSON *path = cJSON_GetObjectItem(params, "path"), *event = cJSON_GetObjectItem(params, "event");
	verif_last_event[k] = NULL;
	if (event && event->valuestring) { for (unsigned c = 0; c < 7; c++) { verif_last_event_buf[k][c] = event->valuestring[c]; if (event->valuestring[c] == 0) break; } verif_last_event_buf[k][7] = 0; verif_last_event[k] = verif_last_event_buf[k]; } verif_last_path0[k] = (path && path->valuestring) ? path->valuestring[0] : 0;
	verif_last_has_value[k] = cJSON_GetObjectItem(params, "value") != NULL; verif_last_method_type[k] = method ? method->type : -1;
	verif_last_fetch_only[k] = cJSON_GetObjectItem(params, "fetchOnly") != NULL;
	if (verif_peer_fails[k]) return -1;
	verif_sent[k]++;
	return 0;
}

#define NF 3
static struct fetch verif_f[NF]; static cJSON verif_fid[NF];
static struct element verif_e; static char verif_epath[3]; static cJSON verif_evalue;
#define TBL 3
static struct fetch *verif_tbl[TBL];

static void world(void)
{
	for (unsigned k = 0; k < NP; k++) { verif_peer[k].send_message = stub_send; verif_peer_fails[k] = nondet_bool(); verif_peer[k].fetch_groups = nondet_u32(); INIT_LIST_HEAD(&verif_peer[k].fetch_list); INIT_LIST_HEAD(&verif_peer[k].element_list); }
	for (unsigned i = 0; i < NF; i++) {
		verif_f[i].peer = &verif_peer[i]; verif_f[i].number_of_matchers = 1; verif_f[i].matcher[0] = NULL;   /* fetch-all rules */
		verif_fid[i].type = cJSON_Number; verif_fid[i].valuedouble = i; verif_fid[i].valueint = (int)i; verif_fid[i].valuestring = NULL; verif_fid[i].string = NULL; verif_fid[i].child = NULL; verif_fid[i].next = NULL;
		verif_f[i].fetch_id = &verif_fid[i];
		INIT_LIST_HEAD(&verif_f[i].next_fetch);
	}
	verif_epath[0] = (char)nondet_u8(); verif_epath[1] = 0; __CPROVER_assume(verif_epath[0] != 0);
	verif_e.path = verif_epath;
	verif_evalue.type = cJSON_Number; verif_evalue.child = NULL; verif_evalue.next = NULL; verif_evalue.string = NULL; verif_evalue.valuestring = NULL; verif_evalue.valuedouble = 1; verif_evalue.valueint = 1;
	verif_e.value = nondet_bool() ? &verif_evalue : NULL;
	verif_e.flags = nondet_bool() ? FETCH_ONLY_FLAG : 0;
	verif_e.fetch_groups = nondet_u32();
	verif_e.peer = &verif_peer[0];
}

/* ---- fx.notify: an event is delivered to every subscriber, whatever the other subscribers' sockets do ------- */
void h_fx_notify(void)
{
	world();
	/* the element's subscription table: any arrangement of fetches 0..2 (each at most once) and empty slots */
	bool used[NF] = {false, false, false};
	for (unsigned s = 0; s < TBL; s++) {
		unsigned c = nondet_uint();
		__CPROVER_assume(c <= NF);
#ifdef FX_ALLOC_FAIL
		__CPROVER_assume(s == 0 ? c == 0 : c == NF);   /* one subscriber: the failure cases multiply per notification built */
#endif
		if (c < NF && !used[c]) { verif_tbl[s] = &verif_f[c]; used[c] = true; } else verif_tbl[s] = NULL;
	}
	verif_e.fetcher_table = verif_tbl; verif_e.fetch_table_size = TBL;
	const char *event = nondet_bool() ? "change" : "remove";
#ifdef FX_ALLOC_FAIL
	verif_cj_may_fail = true;   /* C15: every JSON allocation made while a notification is built may fail */
#endif
	int r = notify_fetchers(&verif_e, event);
#ifdef FX_ALLOC_FAIL
	verif_cj_may_fail = false;
#endif
	unsigned gi = nondet_uint();
	__CPROVER_assume(gi < NF);
#ifdef FX_ALLOC_FAIL
	/* a notification may be lost to an allocation failure, but what IS sent is complete, goes out once, and nothing is leaked */
	if (used[gi] && verif_attempts[gi] > 0) {
		__CPROVER_assert(verif_attempts[gi] == 1, "C15.notify.at-most-one-notification-per-subscriber");
		bool ev_ok = false;
		if (verif_last_event[gi] != NULL) ev_ok = strcmp(verif_last_event[gi], event) == 0;
		__CPROVER_assert(ev_ok && verif_last_path0[gi] == verif_epath[0] &&
			verif_last_has_value[gi] == (verif_e.value != NULL) && verif_last_method_type[gi] == cJSON_Number && verif_last_fetch_only[gi] == ((verif_e.flags & FETCH_ONLY_FLAG) != 0),
			"C15.notify.a-notification-that-is-sent-is-complete");
	}
	__CPROVER_assert(used[gi] || verif_attempts[gi] == 0, "C01.notify.nothing-for-peers-that-did-not-subscribe");
	__CPROVER_assert(verif_cj_live_nodes == 0, "C15.notify.no-json-node-left-behind");
	(void)r;
	VERIF_COVER(used[0] && verif_attempts[0] == 0, "a notification lost to an allocation failure");
	VERIF_COVER(used[0] && verif_attempts[0] == 1, "a notification sent");
#else
	if (used[gi]) {
		__CPROVER_assert(verif_attempts[gi] == 1, "C11.notify.every-subscriber-is-sent-the-event-once-whatever-happens-to-the-others");
		bool ev_ok = false;
		if (verif_last_event[gi] != NULL) ev_ok = strcmp(verif_last_event[gi], event) == 0;
		__CPROVER_assert(ev_ok && verif_last_path0[gi] == verif_epath[0] &&
			verif_last_has_value[gi] == (verif_e.value != NULL) && verif_last_method_type[gi] == cJSON_Number && verif_last_fetch_only[gi] == ((verif_e.flags & FETCH_ONLY_FLAG) != 0),
			"C01.notify.event-carries-fetch-id-path-event-and-current-value");
	} else {
		__CPROVER_assert(verif_attempts[gi] == 0, "C01.notify.nothing-for-peers-that-did-not-subscribe");
	}
	bool any_fail = false;
	for (unsigned k = 0; k < NF; k++) if (used[k] && verif_peer_fails[k]) any_fail = true;
	__CPROVER_assert((r != 0) == any_fail, "C11.notify.failed-delivery-is-reported");
	__CPROVER_assert(verif_cj_live_nodes == 0, "C01.notify.no-json-node-left-behind");
	VERIF_COVER(used[0] && used[1] && used[2] && verif_peer_fails[0] && !verif_peer_fails[2] && verif_tbl[0] == &verif_f[0], "first subscriber fails, later ones healthy");
	VERIF_COVER(verif_tbl[0] == NULL && used[1], "hole before a subscriber");
	VERIF_COVER(!used[0] && !used[1] && !used[2], "no subscribers");
#endif
}

/* ---- fx.subscribe: add_fetch_to_state incl. table growth ---------------------------------------------------------- */
void h_fx_subscribe(void)
{
	world();
	unsigned size = nondet_uint();
	__CPROVER_assume(size == 0 || size == 2 || size == 4);
	struct fetch **tbl = calloc(size ? size : 1, sizeof(*tbl));
	__CPROVER_assume(tbl != NULL);
	bool in0 = nondet_bool(), in1 = nondet_bool();
	unsigned fill = 0;
	if (in0 && fill < size) tbl[fill++] = &verif_f[0];
	if (in1 && fill < size) tbl[fill++] = &verif_f[1];
	static struct fetch filler[2];
	if (nondet_bool() && size == 4 && fill == 2) { tbl[2] = &filler[0]; tbl[3] = &filler[1]; fill = 4; }   /* a full table of four */
	else if (nondet_bool() && size == 4 && fill == 2) { tbl[2] = tbl[1]; tbl[1] = NULL; }   /* a hole */
	bool full = (fill == size);
	verif_e.fetcher_table = tbl; verif_e.fetch_table_size = size;
	verif_alloc_fail = nondet_bool();
	bool had0 = false, had1 = false;
	for (unsigned s = 0; s < size; s++) { if (tbl[s] == &verif_f[0]) had0 = true; if (tbl[s] == &verif_f[1]) had1 = true; }
	int r = add_fetch_to_state(&verif_e, &verif_f[2]);
	unsigned c0 = 0, c1 = 0, c2 = 0;
	for (unsigned s = 0; s < verif_e.fetch_table_size && s < 8; s++) { if (verif_e.fetcher_table[s] == &verif_f[0]) c0++; if (verif_e.fetcher_table[s] == &verif_f[1]) c1++; if (verif_e.fetcher_table[s] == &verif_f[2]) c2++; }
	if (r == 0) {
		__CPROVER_assert(c2 == 1 && c0 == (had0 ? 1u : 0u) && c1 == (had1 ? 1u : 0u), "C01.subscribe.fetch-added-once-other-subscriptions-kept");
		__CPROVER_assert(verif_e.fetch_table_size == (full ? (size * 2 > CONFIG_INITIAL_FETCH_TABLE_SIZE ? size * 2 : CONFIG_INITIAL_FETCH_TABLE_SIZE) : size), "C01.subscribe.table-grows-only-when-full");
	} else {
		__CPROVER_assert(r == -1 && full && verif_alloc_fail && c2 == 0 && c0 == (had0 ? 1u : 0u) && c1 == (had1 ? 1u : 0u) && verif_e.fetch_table_size == size, "C01.subscribe.failure-only-when-growth-fails-and-changes-nothing");
	}
	free(verif_e.fetcher_table);
	VERIF_COVER(r == 0 && full && size == 4, "grown from 4 to 8");
	VERIF_COVER(r == 0 && !full && size == 4 && had0 && had1, "hole reused");
	VERIF_COVER(r == -1, "growth failed");
}

/* ---- fx.addnotify: a fetch meets an element -------------------------------------------------------------------------- */
void h_fx_addnotify(void)
{
	world();
	for (unsigned s = 0; s < TBL; s++) verif_tbl[s] = NULL;
	verif_e.fetcher_table = verif_tbl; verif_e.fetch_table_size = TBL;
	int r = add_fetch_to_state_and_notify(&verif_peer[0], &verif_e, &verif_f[1]);
	bool visible = (verif_e.fetch_groups & verif_peer[1].fetch_groups) != 0;
	unsigned c = 0;
	for (unsigned s = 0; s < TBL; s++) if (verif_tbl[s] == &verif_f[1]) c++;
	if (!visible) {
		__CPROVER_assert(r == 0 && c == 0 && verif_attempts[1] == 0, "C08.fetch.element-without-a-shared-fetch-group-is-invisible");
	} else {
		bool ev_ok = false;
		if (verif_last_event[1] != NULL) ev_ok = strcmp(verif_last_event[1], "add") == 0;
		__CPROVER_assert(c == 1 && verif_attempts[1] == 1 && ev_ok, "C01.fetch.matching-visible-element-is-subscribed-and-announced-once");
		__CPROVER_assert((r != 0) == verif_peer_fails[1], "C01.fetch.failed-announcement-reported");
	}
	__CPROVER_assert(verif_attempts[0] == 0 && verif_attempts[2] == 0, "C01.fetch.nothing-sent-to-other-peers");
	VERIF_COVER(visible && r == 0, "announced");
	VERIF_COVER(!visible, "invisible");
}

/* ---- fx.unfetch: after unfetch / disconnect no element mentions the fetch ------------------------------------------ */
void h_fx_dropall(void)
{
	world();
	/* peer 1 has two fetches (heap objects), subscribed to an element of peer 0 in arbitrary slots */
	struct fetch *a = calloc(1, sizeof(*a)), *b = calloc(1, sizeof(*b));
	__CPROVER_assume(a != NULL && b != NULL);
	a->peer = b->peer = &verif_peer[1]; a->number_of_matchers = b->number_of_matchers = 1; a->fetch_id = NULL; b->fetch_id = NULL;
	list_add_tail(&a->next_fetch, &verif_peer[1].fetch_list); list_add_tail(&b->next_fetch, &verif_peer[1].fetch_list);
	for (unsigned s = 0; s < TBL; s++) { unsigned c = nondet_uint(); __CPROVER_assume(c < 4); verif_tbl[s] = c == 0 ? a : c == 1 ? b : c == 2 ? &verif_f[2] : NULL; }
	bool other_before[TBL];
	for (unsigned s = 0; s < TBL; s++) other_before[s] = verif_tbl[s] == &verif_f[2];
	verif_e.fetcher_table = verif_tbl; verif_e.fetch_table_size = TBL;
	INIT_LIST_HEAD(&verif_peer_list);
	list_add_tail(&verif_peer[0].next_peer, &verif_peer_list); list_add_tail(&verif_peer[1].next_peer, &verif_peer_list);
	list_add_tail(&verif_e.element_list, &verif_peer[0].element_list);
	remove_all_fetchers_from_peer(&verif_peer[1]);
	for (unsigned s = 0; s < TBL; s++) {
		__CPROVER_assert(verif_tbl[s] != a && verif_tbl[s] != b, "C05.fetch.no-element-mentions-a-released-fetch");
		__CPROVER_assert((verif_tbl[s] == &verif_f[2]) == other_before[s], "C05.fetch.subscriptions-of-other-peers-untouched");
	}
	__CPROVER_assert(list_empty(&verif_peer[1].fetch_list), "C05.fetch.all-fetches-of-the-peer-ended");
	__CPROVER_assert(verif_attempts[0] == 0 && verif_attempts[1] == 0 && verif_attempts[2] == 0, "C01.unfetch.nothing-delivered-for-an-ended-fetch");
	VERIF_COVER(other_before[0] && other_before[TBL - 1] == false, "mixed table");
}

/* ---- fx.getelement: one element's contribution to the snapshot answered to "get" -------------------------------- */
#ifndef FX_GET_FAIL
#define FX_GET_FAIL 0
#endif
void h_fx_getelement(void)
{
	world();
	cJSON *states = cJSON_CreateArray();
	__CPROVER_assume(states != NULL);
	cJSON request; cJSON any; request = any;
	request.type = cJSON_Object; request.next = request.prev = request.child = NULL; request.string = NULL; request.valuestring = NULL;
	cJSON *response = NULL;
	verif_cj_may_fail = FX_GET_FAIL;   /* C15: every JSON allocation made while the entry is built may fail */
	/* as at the call site: p is the peer that OWNS the element (peer 0), the asking peer is the fetch's (peer 1) */
	int r = get_element(&verif_peer[0], &request, &verif_e, &verif_f[1], states, &response);
	verif_cj_may_fail = false;
	bool visible = ((verif_e.fetch_groups & verif_peer[1].fetch_groups) != 0) && verif_e.value != NULL;
	unsigned entries = 0;
	for (const cJSON *c = states->child; c != NULL; c = c->next) entries++;
	__CPROVER_assert(r == 0 || r == -1, "C02.get.result-is-success-or-failure");
	if (!FX_GET_FAIL) __CPROVER_assert(r == 0, "C02.get.no-failure-without-a-failing-allocation");
	if (r == 0) {
		__CPROVER_assert(entries == (visible ? 1u : 0u), "C08.get.exactly-the-visible-states-with-a-value-are-listed");
		if (entries == 1) {
			const cJSON *s = states->child;
			const cJSON *path = cJSON_GetObjectItem(s, "path"), *value = cJSON_GetObjectItem(s, "value");
			unsigned members = 0;
			for (const cJSON *c = s->child; c != NULL; c = c->next) members++;
			bool path_ok = false, value_ok = false;
			if (path != NULL && path->type == cJSON_String && path->valuestring != NULL) path_ok = path->valuestring[0] == verif_epath[0] && path->valuestring[1] == 0;
			if (value != NULL) value_ok = value->type == cJSON_Number && value->valuedouble == 1;
			__CPROVER_assert(s->type == cJSON_Object && members == 2 && path_ok && value_ok, "C15.get.a-listed-state-is-complete-path-and-current-value");
		}
	} else {
		__CPROVER_assert(entries == 0, "C15.get.a-failed-entry-is-not-listed");
	}
	cJSON_Delete(states);
	__CPROVER_assert((response != NULL) == (verif_responses_built == 1) && verif_responses_built <= 1 && (r == 0 ? response == NULL : true), "C02.get.an-entry-builds-at-most-the-error-response-it-hands-back");
	if (response != NULL) cJSON_Delete(response);   /* handed to the caller, which returns it */
	__CPROVER_assert(verif_cj_live_nodes == 0, "C15.get.no-json-node-left-behind");
	VERIF_COVER(r == 0 && entries == 1, "state listed");
	VERIF_COVER(r == 0 && !visible && verif_e.value != NULL, "state hidden from the fetching peer's groups");
#if FX_GET_FAIL
	VERIF_COVER(r == -1, "entry lost to an allocation failure");
#endif
}

/* ---- fx.getall: get_elements - the whole "get" handler over one peer owning one state ------------------------- */
void h_fx_getall(void)
{
	world();
	INIT_LIST_HEAD(&verif_peer_list);
	list_add_tail(&verif_peer[0].next_peer, &verif_peer_list);
	INIT_LIST_HEAD(&verif_e.element_list);
	list_add_tail(&verif_e.element_list, &verif_peer[0].element_list);
	cJSON request, params; cJSON any; request = any; params = any;
	char pname[7] = "params";
	params.type = cJSON_Object; params.next = params.prev = params.child = NULL; params.string = pname; params.valuestring = NULL;
	request.type = cJSON_Object; request.next = request.prev = NULL; request.child = &params; request.string = NULL; request.valuestring = NULL;
#ifdef FX_GET_PATH
	/* params: {path: {startsWith: <the state's one-character path>}} - the rule path of create_fetch */
	cJSON path, rule; path = any; rule = any;
	char pathname[5] = "path", rulename[11] = "startsWith", operand[2];
	operand[0] = verif_epath[0]; operand[1] = 0;
	rule.type = cJSON_String; rule.next = rule.prev = rule.child = NULL; rule.string = rulename; rule.valuestring = operand;
	path.type = cJSON_Object; path.next = path.prev = NULL; path.child = &rule; path.string = pathname; path.valuestring = NULL;
	params.child = &path;
#endif
	verif_alloc_fail = FX_GET_FAIL ? nondet_bool() : false;
	verif_cj_may_fail = FX_GET_FAIL;
	cJSON *r = get_elements(&request, &verif_peer[1]);
	verif_cj_may_fail = false;
	__CPROVER_assert(verif_responses_built == (r != NULL ? 1u : 0u), "C02.get.exactly-the-returned-response-was-built");
	if (!FX_GET_FAIL) {
		bool visible = ((verif_e.fetch_groups & verif_peer[1].fetch_groups) != 0) && verif_e.value != NULL;
		__CPROVER_assert(!verif_result_was_null && verif_result_entries == (visible ? 1u : 0u), "C08.get.answer-lists-exactly-the-visible-states");
	}
	if (r != NULL) cJSON_Delete(r);
	__CPROVER_assert(verif_cj_live_nodes == 0, "C15.get.handler-leaves-no-json-node-behind");
#ifndef FX_GET_PATH
	VERIF_COVER(r != NULL && verif_result_entries == 1, "answer with one state");
#else
	VERIF_COVER(r != NULL && !verif_alloc_fail, "rule refused: error answer");
#endif
#if FX_GET_FAIL && !defined(FX_GET_PATH)
	VERIF_COVER(verif_alloc_fail, "fetch record not allocated");
	VERIF_COVER(r != NULL && verif_result_entries == 0 && verif_e.value != NULL && (verif_e.fetch_groups & verif_peer[1].fetch_groups) != 0, "error answer after a failed entry");
#endif
#if FX_GET_FAIL && defined(FX_GET_PATH)
	VERIF_COVER(verif_alloc_fail && r != NULL, "fetch record not allocated, error answer");
#endif
}
