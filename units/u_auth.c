/* unit auth.handle: handle_authentication of src/authenticate.c (property C08: a failed authentication
 * changes nothing, a successful one assigns exactly the user's groups; the password never flows to a
 * response or log).  Credential store, group mapping and response builders are stubs. */
#include "common.h"
#include <stdlib.h>
#include <string.h>
#include "log_stub.h"
#include "cjson_model.h"
#include "authenticate.c"

static char verif_user[3], verif_pw[3];
static cJSON verif_auth, verif_fg, verif_sg, verif_cg;
static bool verif_cred_ok; static unsigned verif_cred_calls;
static unsigned verif_err, verif_ok; static cJSON verif_resp;
static bool verif_dup_fails; static char *verif_dup;
static unsigned verif_freed; static void *verif_freed_ptr;

const cJSON *credentials_ok(const char *user_name, char *passwd)
{
	__CPROVER_assert(user_name == verif_user && passwd == verif_pw, "C08.auth.credentials-checked-with-the-given-user-and-password");
	verif_cred_calls++;
	return verif_cred_ok ? &verif_auth : NULL;
}
cJSON *change_password(const struct peer *p, const cJSON *request, const char *user_name, char *passwd) { (void)p; (void)request; (void)user_name; (void)passwd; return NULL; }
group_t get_groups(const cJSON *g) { return g == &verif_fg ? 0x11u : g == &verif_sg ? 0x22u : g == &verif_cg ? 0x44u : 0u; }
char *duplicate_string(const char *s)
{
	__CPROVER_assert(s != verif_pw, "C08.auth.password-is-not-copied");
	if (verif_dup_fails) return NULL;
	verif_dup = malloc(3);
	__CPROVER_assume(verif_dup != NULL);
	memcpy(verif_dup, s, 3);
	return verif_dup;
}
void cjet_free(void *p) { verif_freed++; verif_freed_ptr = p; free(p); }
void log_peer_err(const struct peer *p, const char *fmt, ...) { (void)p; (void)fmt; }
cJSON *create_error_response_from_request(const struct peer *p, const cJSON *request, int code, const char *tag, const char *reason)
{
	(void)p; (void)request; (void)code;
	__CPROVER_assert(tag != verif_pw && reason != verif_pw, "C08.auth.password-never-appears-in-a-response");
	verif_err++;
	return &verif_resp;
}
cJSON *create_success_response_from_request(const struct peer *p, const cJSON *request) { (void)p; (void)request; verif_ok++; return &verif_resp; }

void h_auth_handle(void)
{
	struct peer p;
	char old_name[2] = "o";
	char *old = malloc(2);
	__CPROVER_assume(old != NULL);
	old[0] = 'o'; old[1] = 0;
	bool had_name = nondet_bool();
	p.user_name = had_name ? old : NULL;
	if (!had_name) free(old);
	group_t f0 = p.fetch_groups, s0 = p.set_groups, c0 = p.call_groups;
	INIT_LIST_HEAD(&p.fetch_list);
	struct list_head some_fetch;
	bool fetched = nondet_bool();
	if (fetched) list_add_tail(&some_fetch, &p.fetch_list);

	/* request {params:{user:<string|other>, password:<string|other>}} with optional members */
	cJSON request, params, user, pass;
	verif_user[0] = (char)nondet_u8(); verif_user[1] = (char)nondet_u8(); verif_user[2] = 0;
	verif_pw[0] = (char)nondet_u8(); verif_pw[1] = (char)nondet_u8(); verif_pw[2] = 0;
	user.type = nondet_bool() ? cJSON_String : cJSON_Number; user.valuestring = verif_user; user.string = "user"; user.child = NULL;
	pass.type = nondet_bool() ? cJSON_String : cJSON_Number; pass.valuestring = verif_pw; pass.string = "password"; pass.child = NULL; pass.next = NULL;
	bool has_user = nondet_bool(), has_pass = nondet_bool(), has_params = nondet_bool();
	user.next = has_pass ? &pass : NULL;
	params.type = cJSON_Object; params.string = "params"; params.next = NULL; params.child = has_user ? &user : (has_pass ? &pass : NULL);
	request.type = cJSON_Object; request.string = NULL; request.next = NULL; request.child = has_params ? &params : NULL;
	/* the user's record: each group list may be absent */
	verif_fg.string = "fetchGroups"; verif_sg.string = "setGroups"; verif_cg.string = "callGroups";
	verif_fg.type = verif_sg.type = verif_cg.type = cJSON_Array; verif_fg.child = verif_sg.child = verif_cg.child = NULL;
	bool hf = nondet_bool(), hs = nondet_bool(), hc = nondet_bool();
	cJSON *first = NULL, *last = NULL;
#define ADD(cond, node) if (cond) { (node)->next = NULL; if (last) last->next = (node); else first = (node); last = (node); }
	ADD(hf, &verif_fg) ADD(hs, &verif_sg) ADD(hc, &verif_cg)
	verif_auth.type = cJSON_Object; verif_auth.child = first; verif_auth.next = NULL; verif_auth.string = NULL;
	verif_cred_ok = nondet_bool();
	verif_dup_fails = nondet_bool();

	cJSON *r = handle_authentication(&p, &request);

	bool well_formed = has_params && has_user && user.type == cJSON_String && has_pass && pass.type == cJSON_String;
	bool should_succeed = well_formed && !fetched && verif_cred_ok && !verif_dup_fails;
	__CPROVER_assert(r == &verif_resp && verif_err + verif_ok == 1, "C08.auth.exactly-one-response");
	__CPROVER_assert((verif_ok == 1) == should_succeed, "C08.auth.success-iff-well-formed-unfetched-and-credentials-ok");
	if (verif_ok == 1) {
		__CPROVER_assert(p.fetch_groups == (hf ? 0x11u : 0u) && p.set_groups == (hs ? 0x22u : 0u) && p.call_groups == (hc ? 0x44u : 0u), "C08.auth.success-assigns-exactly-the-users-groups");
		__CPROVER_assert(p.user_name == verif_dup && p.user_name[0] == verif_user[0] && p.user_name[1] == verif_user[1], "C08.auth.success-records-the-user-name");
		__CPROVER_assert(!had_name || (verif_freed == 1 && verif_freed_ptr == old), "C07.auth.previous-user-name-released");
		free(p.user_name);
	} else {
		__CPROVER_assert(p.fetch_groups == f0 && p.set_groups == s0 && p.call_groups == c0 && p.user_name == (had_name ? old : NULL) && verif_freed == 0, "C08.auth.failed-authentication-changes-nothing");
		if (had_name) free(old);
	}
	__CPROVER_assert(verif_cred_calls <= 1 && (well_formed && !fetched ? verif_cred_calls == 1 : verif_cred_calls == 0), "C08.auth.credentials-consulted-only-for-well-formed-requests");
	VERIF_COVER(verif_ok == 1 && had_name, "re-authentication succeeds");
	VERIF_COVER(verif_ok == 0 && well_formed && !fetched && !verif_cred_ok, "wrong password");
	VERIF_COVER(verif_ok == 0 && well_formed && !fetched && verif_cred_ok && verif_dup_fails, "out of memory after the credential check");
	VERIF_COVER(fetched && well_formed, "authenticate after fetch");
}
