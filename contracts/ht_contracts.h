/* Contracts for src/hashtable.h  (property C17): the hopscotch table as an exact finite map.
 *
 * Parameters (from the unit): HT_ORDER (table order), HT_KIND (1 uint32 keys, 2 uint64 keys).
 *
 * The table code is correct for ANY hash function into [0, 2^order), so the integer hash functions
 * hs_hash32 / hs_hash6432shift are interposed: the real ones are renamed verif_real_* (and verified
 * in unit ht.hash), the table code instantiated below by the REAL DECLARE_HASHTABLE_* macro calls
 * uninterpreted stubs.  (Probe: with the real multiplicative hash no solver finished.)
 *
 * Representation invariant Inv(t), N = 2^order, home(k) = HT_H(k):
 *   A : bit d of t[h].hop_info set  ==>  d < N, slot (h+d)%N is live and its key's home is h
 *   B : slot p live  ==>  d = (p - home(key_p)) % N < 32 and bit d of t[home].hop_info is set
 *       (so no live slot is unreferenced)
 *   C : p != q, both live  ==>  key_p != key_q    (no key stored twice)
 * Abstract view V(t)(k) = value of the live slot holding k, or NONE.
 *
 * The contracts are PRE/POST pairs over the whole table (all N slots), evaluated by pure C spec
 * functions whose loops have constant bounds (N, 32).  cbmc's --dfcc instrumentation made even
 * hashtable_get at order 3 time out (600 s), so for this property the contract is enforced by a
 * hand-instrumented harness: assume(PRE); snapshot; call; assert(POST) incl. explicit frame
 * assertions - see units/ht.c and DESIGN.md.
 */
#ifndef VERIF_CONTRACTS_HASHTABLE_H
#define VERIF_CONTRACTS_HASHTABLE_H

#include <stdint.h>
#include <stddef.h>
#include <string.h>

#define hs_hash32 verif_real_hs_hash32
#define hs_hash6432shift verif_real_hs_hash6432shift
#include "hashtable.h"
#undef hs_hash32
#undef hs_hash6432shift

#ifndef HT_ORDER
#error HT_ORDER required
#endif
#define HT_N (UINT32_C(1) << HT_ORDER)
#define HT_WRAP(x) ((uint32_t)(x) & (HT_N - 1))

#ifdef VERIF_NATIVE
/* native replay: any fixed function works as "the" hash; use a weak one so that collisions are common */
static inline uint32_t verif_ht_hash_model(uint64_t k) { return (uint32_t)(k ^ (k >> 7)); }
#define HT_UF(k) verif_ht_hash_model(k)
#else
uint32_t __CPROVER_uninterpreted_ht_hash(uint64_t);
#define HT_UF(k) __CPROVER_uninterpreted_ht_hash(k)
#endif
#ifdef HT_PIN_HOME
/* units ht.putd: while verif_pin is set the table code's hash of the (one) key it hashes is the CONSTANT HT_PIN_HOME, so
 * that every index in hashtable_put is a constant for the solver; the harness assumes HT_H(key) == HT_PIN_HOME, so this is
 * the same function, and the assertion checks that no other key is hashed meanwhile. */
static _Bool verif_pin; static uint64_t verif_pin_key;
#define HT_PINNED(k) if (verif_pin) { __CPROVER_assert((uint64_t)(k) == verif_pin_key, "C17.putd.only-the-inserted-key-is-hashed"); return HT_PIN_HOME; }
#else
#define HT_PINNED(k)
#endif
static inline uint32_t hs_hash32(uint32_t key, unsigned int order) { HT_PINNED(key) return HT_UF((uint64_t)key) & ((UINT32_C(1) << order) - 1); }
static inline uint32_t hs_hash6432shift(uint64_t key, unsigned int order) { HT_PINNED(key) return HT_UF(key) & ((UINT32_C(1) << order) - 1); }

#ifdef HT_STUB_CLOSER
/* Modular proof of hashtable_put's displacement loop: the CALL of find_closer_entry inside the macro-generated
 * put is redirected to a contract stub while the real body keeps being compiled under another name.  The token
 * `find_closer_entry_VT` occurs exactly twice in the expansion of DECLARE_HASHTABLE (definition, then the call in
 * put); an object-like macro numbers the occurrences with __COUNTER__.  The _Static_assert below makes a different
 * numbering a compile error (= infrastructure error, never a verdict). */
#define HT_CAT_(a, b) a##b
#define HT_CAT(a, b) HT_CAT_(a, b)
enum { ht_counter_base = __COUNTER__ };
#define find_closer_entry_VT HT_CAT(verif_closer_occurrence_, __COUNTER__)
#define verif_closer_occurrence_1 verif_real_find_closer_entry
#define verif_closer_occurrence_2 verif_stub_find_closer_entry
struct hashtable_uint32_t; struct hashtable_uint64_t;
#endif
#if HT_KIND == 1
#ifdef HT_STUB_CLOSER
static inline uint32_t verif_stub_find_closer_entry(struct hashtable_uint32_t *table, uint32_t free_position);
#endif
DECLARE_HASHTABLE_UINT32(VT, HT_ORDER, 1)
typedef uint32_t ht_key_t;
typedef struct hashtable_uint32_t ht_slot_t;
#else
DECLARE_HASHTABLE_UINT64(VT, HT_ORDER, 1)
typedef uint64_t ht_key_t;
typedef struct hashtable_uint64_t ht_slot_t;
#endif
typedef struct value_VT ht_val_t;
#ifdef HT_STUB_CLOSER
#undef find_closer_entry_VT
_Static_assert(ht_counter_base == 0 && __COUNTER__ == 3, "find_closer_entry occurrences numbered as expected");
#endif

#define HT_INVALID ((ht_key_t)HASHTABLE_INVALIDENTRY)
#define HT_H(k) (HT_UF((uint64_t)(k)) & (HT_N - 1))
#define HT_NONE ((void *)-1) /* "no value": distinct from every stored value (stored values are != HT_NONE by precondition) */

struct ht_table { ht_slot_t s[HT_N]; };

/* ---- representation invariant over the whole table ------------------------------------------- */
static inline _Bool ht_inv(const struct ht_table *t)
{
	uint32_t home[HT_N];
	for (uint32_t p = 0; p < HT_N; p++) home[p] = HT_H(t->s[p].key);
	for (uint32_t h = 0; h < HT_N; h++) {
		uint32_t hop = t->s[h].hop_info;
		for (uint32_t d = 0; d < 32; d++) {
			if ((hop >> d) & 1u) {
				if (d >= HT_N) return 0;                       /* A: no bit beyond the table */
				uint32_t s = HT_WRAP(h + d);
				if (t->s[s].key == HT_INVALID) return 0;        /* A: referenced slot is live */
				if (home[s] != h) return 0;                      /* A: ... and belongs to home h */
			}
		}
	}
	for (uint32_t p = 0; p < HT_N; p++) {
		if (t->s[p].key == HT_INVALID) continue;
		uint32_t d = HT_WRAP(p - home[p]);
		if (d >= 32) return 0;                                  /* B: within hop range */
		if (!((t->s[home[p]].hop_info >> d) & 1u)) return 0;     /* B: referenced by its home */
		for (uint32_t q = 0; q < HT_N; q++)
			if (q != p && t->s[q].key == t->s[p].key) return 0;  /* C: no duplicate key */
	}
	return 1;
}

/* ---- abstract view ----------------------------------------------------------------------------- */
static inline void *ht_lookup(const struct ht_table *t, ht_key_t k)
{
	if (k == HT_INVALID) return HT_NONE;
	for (uint32_t p = 0; p < HT_N; p++)
		if (t->s[p].key == k) return t->s[p].value.vals[0];
	return HT_NONE;
}
static inline _Bool ht_values_ok(const struct ht_table *t)
{
	for (uint32_t p = 0; p < HT_N; p++)
		if (t->s[p].key != HT_INVALID && t->s[p].value.vals[0] == HT_NONE) return 0;
	return 1;
}
static inline _Bool ht_same(const struct ht_table *a, const struct ht_table *b)
{
	for (uint32_t p = 0; p < HT_N; p++)
		if (a->s[p].hop_info != b->s[p].hop_info || a->s[p].key != b->s[p].key || a->s[p].value.vals[0] != b->s[p].value.vals[0]) return 0;
	return 1;
}
/* "no slot within reach": every slot in the add range of k's home is occupied (orders <= 6: the add
 * range 2^(order-1) is <= the hop range 32, so no displacement is ever attempted) */
static inline _Bool ht_add_range_full(const struct ht_table *t, ht_key_t k)
{
	uint32_t h = HT_H(k);
	for (uint32_t d = 0; d < (HT_N >> 1); d++)
		if (t->s[HT_WRAP(h + d)].key == HT_INVALID) return 0;
	return 1;
}

/* ---- contracts: PRE(t, args) and POST(t_old, t_new, args, results) -------------------------- */
#define HT_PRE(t) (ht_inv(t) && ht_values_ok(t))

/* get: result == (k in V); value == V[k]; table unchanged */
#define HT_GET_POST_RESULT(t0, k, r) ((r) == (ht_lookup(t0, k) != HT_NONE ? HASHTABLE_SUCCESS : HASHTABLE_INVALIDENTRY))
#define HT_GET_POST_VALUE(t0, k, r, out) ((r) != HASHTABLE_SUCCESS || (out).vals[0] == ht_lookup(t0, k))

/* remove: result == (k in V_old); reports the removed value; V_new = V_old minus k; Inv preserved */
#define HT_REMOVE_POST_RESULT(t0, k, r) ((r) == (ht_lookup(t0, k) != HT_NONE ? HASHTABLE_SUCCESS : HASHTABLE_INVALIDENTRY))
#define HT_REMOVE_POST_VALUE(t0, k, r, outp) ((r) != HASHTABLE_SUCCESS || (outp) == NULL || (outp)->vals[0] == ht_lookup(t0, k))
#define HT_REMOVE_POST_VIEW(t0, t1, k, k2) (ht_lookup(t1, k2) == ((k2) == (k) ? HT_NONE : ht_lookup(t0, k2)))

/* put: KEYINVAL iff reserved key; SUCCESS => V_new = V_old[k -> v], previous value reported;
 *      FULL => table unchanged, k absent, and no free slot in the add range of its home */
#define HT_PUT_POST_RESULT(t0, k, r) ((k) == HT_INVALID ? (r) == HASHTABLE_KEYINVAL : \
	((r) == HASHTABLE_SUCCESS || ((r) == HASHTABLE_FULL && ht_lookup(t0, k) == HT_NONE && ht_add_range_full(t0, k))))
#define HT_PUT_POST_VIEW(t0, t1, k, v, r, k2) ((r) == HASHTABLE_SUCCESS ? \
	ht_lookup(t1, k2) == ((k2) == (k) ? (v) : ht_lookup(t0, k2)) : ht_same(t0, t1))
#define HT_PUT_POST_PREV(t0, k, r, prevp) ((prevp) == NULL || (prevp)->vals[0] == (((r) == HASHTABLE_SUCCESS && ht_lookup(t0, k) != HT_NONE) ? ht_lookup(t0, k) : NULL))
/* an insertion is never refused while a slot in the add range of the key's home is free */
#define HT_PUT_POST_NOT_REFUSED(t0, k, r) ((r) != HASHTABLE_FULL || ht_add_range_full(t0, k))

#endif
