#!/usr/bin/env python3
"""Driver: runs CBMC contract-verification units against /repo and decides properties.

Exit codes of a property check: 0 = every obligation mapped to the property discharged
(or listed as known finding), 1 = violation (VIOLATION line printed), 2 = infrastructure
error (timeout, tool failure, vacuity guard) -- never reported as a violation.
"""
import concurrent.futures as cf
import threading
import hashlib
import json
import os
import re
import resource
import shutil
import subprocess
import sys
import tempfile
import time

VERIF = os.path.dirname(os.path.dirname(os.path.abspath(__file__)))
REPO = os.environ.get("VERIF_REPO", "/repo")
# where evidence and replay files go (mutation self-tests redirect this away from /verif)
OUT = os.environ.get("VERIF_OUT", VERIF)
sys.path.insert(0, VERIF)

SAFETY_FLAGS = [
    "--bounds-check", "--pointer-check", "--pointer-overflow-check", "--div-by-zero-check",
    "--signed-overflow-check", "--undefined-shift-check",
    "--pointer-primitive-check",
]
SAFETY_CLASSES = {
    "array bounds", "bounds", "pointer dereference", "pointer_dereference", "overflow",
    "pointer arithmetic", "pointer_arithmetic", "division-by-zero", "undefined-shift",
    "pointer_primitives", "pointer primitives", "memory-leak", "NaN", "enum-range-check",
    "bit count", "precondition_instance", "error label",
}
CONTRACT_CLASSES = {
    "postcondition", "precondition", "assigns", "frees", "loop_invariant_base", "loop_invariant_step",
    "loop_decreases", "loop_assigns", "loop_step_unwinding", "assertion", "no-body",
}


def log(msg):
    sys.stderr.write(msg + "\n")
    sys.stderr.flush()


def limit_resources(mem_gb):
    def f():
        b = int(mem_gb * (1 << 30))
        try:
            resource.setrlimit(resource.RLIMIT_AS, (b, b))
        except Exception:
            pass
        os.setsid()
    return f


def run(cmd, cwd, timeout, mem_gb=12, stdout_path=None):
    t0 = time.time()
    out_f = open(stdout_path, "wb") if stdout_path else subprocess.PIPE
    try:
        p = subprocess.Popen(cmd, cwd=cwd, stdout=out_f, stderr=subprocess.PIPE if stdout_path else subprocess.STDOUT,
                             preexec_fn=limit_resources(mem_gb))
        try:
            so, se = p.communicate(timeout=timeout)
        except subprocess.TimeoutExpired:
            try:
                os.killpg(p.pid, 9)
            except Exception:
                pass
            p.communicate()
            return {"rc": None, "timeout": True, "out": "", "wall": time.time() - t0}
        text = (se if stdout_path else so) or b""
        return {"rc": p.returncode, "timeout": False, "out": text.decode("utf-8", "replace"), "wall": time.time() - t0}
    finally:
        if stdout_path:
            out_f.close()


_line_cache = {}


def source_line(path, line, cwd):
    if not path:
        return ""
    if not os.path.isabs(path):
        path = os.path.join(cwd, path)
    key = path
    if key not in _line_cache:
        try:
            with open(path, errors="replace") as f:
                _line_cache[key] = f.read().split("\n")
        except OSError:
            _line_cache[key] = []
    lines = _line_cache[key]
    try:
        return lines[int(line) - 1]
    except (IndexError, ValueError):
        return ""


TAG_RE = re.compile(r"@ob\s+([A-Za-z0-9_.\-]+)")
DESC_TAG_RE = re.compile(r"^(C\d\d[A-Za-z0-9_.\-]*)")


def classify(r):
    cls = r.get("sourceLocation", {}).get("propertyClass") or ""
    prop = r.get("property", "")
    if not cls:
        m = re.match(r"^.*?\.([a-zA-Z_\-]+)\.\d+$", prop)
        cls = m.group(1) if m else ""
    if cls in ("unwind",) or ".unwind." in prop or "unwinding assertion" in r.get("description", ""):
        return "unwind"
    if ".recursion" in prop:
        return "unwind"
    if cls in CONTRACT_CLASSES:
        return cls
    return "safety:" + (cls or "other")


def parse_cbmc_json(path, cwd):
    with open(path, errors="replace") as f:
        txt = f.read()
    try:
        data = json.loads(txt)
    except json.JSONDecodeError:
        # truncated output (killed): try to salvage
        return None, [], "unparsable cbmc json output"
    results, msgs, final = [], [], None
    for e in data:
        if "result" in e:
            for r in e["result"]:
                results.append(r)
        elif "cProverStatus" in e:
            final = e["cProverStatus"]
        elif "messageText" in e:
            msgs.append((e.get("messageType"), e["messageText"]))
    return results, msgs, final


def obligation_record(r, cwd):
    loc = r.get("sourceLocation", {})
    line_txt = source_line(loc.get("file"), loc.get("line"), loc.get("workingDirectory") or cwd)
    tag = None
    m = TAG_RE.search(line_txt)
    if m:
        tag = m.group(1)
    else:
        m = DESC_TAG_RE.match(r.get("description", ""))
        if m:
            tag = m.group(1).rstrip(".:")
    return {
        "id": r.get("property"),
        "tag": tag,
        "class": classify(r),
        "status": r.get("status"),
        "description": r.get("description", ""),
        "file": loc.get("file"),
        "line": loc.get("line"),
        "function": loc.get("function"),
    }


def extract_inputs(trace, entry):
    """Named assignments made in the harness function (the unit's symbolic inputs)."""
    vals = {}
    for s in trace or []:
        if s.get("stepType") != "assignment" or s.get("hidden"):
            continue
        if s.get("sourceLocation", {}).get("function") != entry and s.get("assignmentType") != "actual-parameter":
            continue
        lhs = s.get("lhs")
        v = s.get("value", {})
        if lhs is None or lhs.startswith("__"):
            continue
        d = v.get("data")
        if d is None and "elements" in v:
            d = json.dumps(flat_value(v))
        if d is None and "members" in v:
            d = json.dumps(flat_value(v))
        vals[lhs] = d
    return vals


def flat_value(v):
    if "data" in v:
        return v["data"]
    if "elements" in v:
        return [flat_value(e.get("value", {})) for e in v["elements"]]
    if "members" in v:
        return {m.get("name"): flat_value(m.get("value", {})) for m in v["members"]}
    return None


def short_trace(trace, limit=400):
    out = []
    for s in trace or []:
        if s.get("hidden"):
            continue
        st = s.get("stepType")
        loc = s.get("sourceLocation", {})
        where = "%s:%s" % (os.path.basename(loc.get("file", "?")), loc.get("line", "?"))
        if st == "assignment":
            lhs = s.get("lhs", "")
            if lhs.startswith("__"):
                continue
            v = s.get("value", {})
            d = v.get("data")
            if d is None:
                d = json.dumps(flat_value(v))
            out.append("%s  %s = %s" % (where, lhs, d))
        elif st == "function-call":
            out.append("%s  call %s" % (where, s.get("function", {}).get("displayName")))
        elif st == "failure":
            out.append("%s  FAILURE %s: %s" % (where, s.get("property"), s.get("reason")))
    if len(out) > limit:
        out = out[: limit // 2] + ["... (%d steps omitted) ..." % (len(out) - limit)] + out[-limit // 2:]
    return out


def gen_cfg(outdir, overrides):
    """Generate generated/{cjet_config.h,os_config.h,version.h} from /repo's templates and
    cmake/defaults.cmake (the defaults CMake would use), with the unit's overrides."""
    vals = {}
    with open(os.path.join(REPO, "cmake", "defaults.cmake")) as f:
        txt = f.read()
    for m in re.finditer(r"ELSE\(\)\s*SET\((\w+)\s+\"?([^\")]*)\"?\)", txt):
        vals[m.group(1)] = m.group(2)
    vals.update({"CJET_VERSION": "verif", "CJET_LAST": "", "PROJECT_NAME": "cjet"})
    vals.update({k: str(v) for k, v in (overrides or {}).items()})
    gd = os.path.join(outdir, "generated")
    os.makedirs(gd, exist_ok=True)
    for tmpl, out in (("src/cjet_config.h.in", "cjet_config.h"), ("src/linux/config/os_config.h.in", "os_config.h"),
                      ("src/version.h.in", "version.h")):
        with open(os.path.join(REPO, tmpl)) as f:
            t = f.read()
        def sub(m):
            if m.group(1) not in vals:
                raise KeyError("config value %s not found in cmake/defaults.cmake" % m.group(1))
            return vals[m.group(1)]
        t = re.sub(r"\$\{(\w+)\}", sub, t)
        with open(os.path.join(gd, out), "w") as f:
            f.write(t)
    return vals


class UnitResult:
    def __init__(self, unit):
        self.unit = unit
        self.name = unit["name"]
        self.infra = None       # message if infrastructure error
        self.obligations = []   # obligation records
        self.failed = []        # obligation records with trace info
        self.wall = 0.0
        self.solver_wall = 0.0
        self.cmds = []
        self.covers = (0, 0)
        self.traces = {}
        self.log_tail = ""


def expand(s, unit):
    return s.replace("{VERIF}", VERIF).replace("{REPO}", REPO)


def run_unit(unit, tier, scratch, keep=False):
    res = UnitResult(unit)
    t0 = time.time()
    wd = os.path.join(scratch, unit["name"].replace("/", "_"))
    os.makedirs(wd, exist_ok=True)
    entry = unit.get("entry") or ("h_" + re.sub(r"[^A-Za-z0-9]", "_", unit["name"]))
    src = os.path.join(VERIF, unit["src"])
    import registry
    cfgname = unit.get("cfg", "prod")
    try:
        gen_cfg(wd, registry.CFGS[cfgname])
    except Exception as ex:
        res.infra = "config generation failed: %r" % ex
        return res
    timeout = unit.get("timeout", 300)
    if tier == "thorough":
        timeout = unit.get("timeout_thorough", max(timeout * 4, 900))
    defs = ["-DCJET_VERIF", "-D_GNU_SOURCE", "-DNDEBUG"] + ["-D" + d for d in unit.get("defines", [])]
    if tier == "thorough":
        defs += ["-D" + d for d in unit.get("defines_thorough", [])]
    incs = ["-I", wd, "-I", os.path.join(wd, "generated"),
            "-I", os.path.join(REPO, "src"), "-I", os.path.join(REPO, "src", "linux"), "-I", VERIF, "-I", os.path.join(VERIF, "contracts"),
            "-I", os.path.join(VERIF, "stubs")]
    for extra in unit.get("includes", []):
        incs += ["-I", expand(extra, unit)]
    extra_src = [expand(s, unit) for s in unit.get("extra_src", [])]
    a, b, c = (os.path.join(wd, n) for n in ("a.gb", "b.gb", "c.gb"))
    for f in (a, b, c):
        if os.path.exists(f):
            os.remove(f)
    # 1. compile
    cmd = ["goto-cc", "-std=gnu99"] + defs + incs + ["--function", entry, src] + extra_src + ["-o", a]
    res.cmds.append(" ".join(cmd))
    r = run(cmd, wd, 120)
    if r["timeout"] or r["rc"] != 0 or not os.path.exists(a):
        res.infra = "goto-cc failed: " + r["out"][-1500:]
        res.wall = time.time() - t0
        return res
    cur = a
    # 2. constant-bound loops unwound before contract instrumentation
    if unit.get("goto_instrument_args"):
        g = os.path.join(wd, "g.gb")
        cmd = ["goto-instrument"] + unit["goto_instrument_args"] + [cur, g]
        res.cmds.append(" ".join(cmd))
        r = run(cmd, wd, 120)
        if r["timeout"] or r["rc"] != 0 or not os.path.exists(g):
            res.infra = "goto-instrument %s failed: %s" % (unit["goto_instrument_args"], r["out"][-1500:])
            res.wall = time.time() - t0
            return res
        cur = g
    unwindset = list(unit.get("unwindset", []))
    if unit.get("unwind_loops"):
        # resolve loop ids by the text of the loop's source line (robust against renumbering)
        r = run(["goto-instrument", "--show-loops", "--json-ui", cur], wd, 120)
        loops = []
        try:
            for e in json.loads(r["out"][r["out"].index("["):]):
                if "loops" in e:
                    loops = e["loops"]
        except Exception:
            loops = []
        for fn, pat, n in unit["unwind_loops"]:
            hits = []
            for lp in loops:
                loc = lp.get("sourceLocation", {})
                if loc.get("function") != fn:
                    continue
                txt = source_line(loc.get("file"), loc.get("line"), loc.get("workingDirectory") or wd)
                if pat == "*" or (pat.startswith("#") and lp["name"].endswith("." + pat[1:])) or (not pat.startswith("#") and re.search(pat, txt)):
                    hits.append(lp["name"])
            if pat == "*" and hits:
                unwindset += ["%s:%d" % (hh, n) for hh in hits]
                continue
            if len(hits) != 1:
                res.infra = "cannot resolve loop %s /%s/: %d matches" % (fn, pat, len(hits))
                res.wall = time.time() - t0
                return res
            unwindset.append("%s:%d" % (hits[0], n))
    if unwindset:
        cmd = ["goto-instrument"] + sum([["--unwindset", u] for u in unwindset], []) + ["--unwinding-assertions", cur, b]
        res.cmds.append(" ".join(cmd))
        r = run(cmd, wd, 120)
        if r["timeout"] or r["rc"] != 0 or not os.path.exists(b):
            res.infra = "goto-instrument --unwindset failed: " + r["out"][-1500:]
            res.wall = time.time() - t0
            return res
        cur = b
    # 3. contracts
    enforce = unit.get("enforce")
    replace = unit.get("replace", [])
    if enforce or replace or unit.get("loop_contracts"):
        cmd = ["goto-instrument", "--dfcc", entry]
        if enforce:
            cmd += ["--enforce-contract", enforce]
        for g in replace:
            cmd += ["--replace-call-with-contract", g]
        if unit.get("loop_contracts"):
            cmd += ["--apply-loop-contracts"]
            if unit.get("loop_contracts_no_unwind"):
                cmd += ["--loop-contracts-no-unwind"]
        cmd += [cur, c]
        res.cmds.append(" ".join(cmd))
        r = run(cmd, wd, 300, mem_gb=16)
        if r["timeout"] or r["rc"] != 0 or not os.path.exists(c):
            res.infra = "goto-instrument --dfcc failed: " + r["out"][-2500:]
            res.wall = time.time() - t0
            return res
        if re.search(r"\bignoring\b", r["out"]) and not unit.get("allow_ignoring"):
            res.infra = "goto-instrument reported 'ignoring': " + r["out"][-1500:]
            res.wall = time.time() - t0
            return res
        cur = c
    # 4. cbmc
    flags = list(SAFETY_FLAGS)
    for f in unit.get("no_flags", []):
        if f in flags:
            flags.remove(f)
    flags += unit.get("flags", [])
    if "--malloc-may-fail" not in flags:
        flags += ["--no-malloc-may-fail"]   # cbmc 6 lets malloc fail by default; units opt in explicitly
    if tier == "thorough":
        flags += unit.get("flags_thorough", [])
    if unit.get("unwind"):
        uw = unit["unwind"]
        if tier == "thorough" and unit.get("unwind_thorough"):
            uw = unit["unwind_thorough"]
        flags += ["--unwind", str(uw), "--unwinding-assertions"]
        for u in unit.get("cbmc_unwindset", []):
            flags += ["--unwindset", u]
    flags += ["--object-bits", str(unit.get("object_bits", 12))]
    if not (enforce or replace or unit.get("loop_contracts")):
        flags += ["--drop-unused-functions"]
    solver = unit.get("solver", "cadical")
    if solver == "kissat":
        flags += ["--external-sat-solver", "kissat"]
    elif solver == "cadical":
        flags += ["--sat-solver", "cadical"]
    elif solver == "minisat":
        pass
    elif solver in ("z3", "cvc5"):
        flags += ["--" + solver]
    outj = os.path.join(wd, "out.json")
    cmd = ["cbmc", cur] + flags + ["--trace", "--json-ui", "--verbosity", "6"]
    res.cmds.append(" ".join(cmd))
    ts = time.time()
    r = run(cmd, wd, timeout, mem_gb=unit.get("mem_gb", 16), stdout_path=outj)
    res.solver_wall = time.time() - ts
    if r["timeout"]:
        res.infra = "cbmc timeout after %ds" % timeout
        res.wall = time.time() - t0
        return res
    results, msgs, final = parse_cbmc_json(outj, wd)
    if results is None or (r["rc"] not in (0, 10)) or not results:
        tail = ""
        try:
            with open(outj, errors="replace") as f:
                tail = f.read()[-1500:]
        except OSError:
            pass
        res.infra = "cbmc failed rc=%s: %s %s" % (r["rc"], r["out"][-800:], tail)
        res.wall = time.time() - t0
        return res
    for mt, text in msgs:
        if re.search(r"\bignoring\b", text) and not unit.get("allow_ignoring"):
            res.infra = "cbmc reported: " + text
            res.wall = time.time() - t0
            return res
    res.cover_obs = []
    res.instr_obs = 0
    res.unknown = 0
    for rr in results:
        ob = obligation_record(rr, wd)
        if ".no-body." in (ob["id"] or "") and any(ob["id"].endswith("no-body." + f) for f in unit.get("allow_no_body", [])):
            continue
        if ob["description"].startswith("COVER"):
            res.cover_obs.append(ob)
            continue
        if (ob["function"] or "").startswith("__CPROVER_") and ob["status"] == "SUCCESS":
            res.instr_obs += 1   # self-checks inside CBMC's contract-instrumentation library: not counted
            continue
        if ob["status"] == "UNKNOWN":
            # cbmc generated no verification condition it had to decide (not reached in this unit): neither
            # discharged nor failed.  A named obligation must never end up here.
            res.unknown += 1
            if ob["tag"]:
                res.infra = "named obligation %s has status UNKNOWN" % ob["tag"]
            continue
        res.obligations.append(ob)
        if ob["status"] != "SUCCESS":
            ob = dict(ob)
            ob["inputs"] = extract_inputs(rr.get("trace"), entry)
            ob["trace"] = short_trace(rr.get("trace"))
            res.failed.append(ob)
    # a failed unwinding assertion means the bound is too small: undecided, never a violation
    uw = [o for o in res.failed if o["class"] == "unwind"]
    if uw:
        res.infra = "unwinding assertion failed (bound too small): %s" % [o["id"] for o in uw][:5]
        res.failed = [o for o in res.failed if o["class"] != "unwind"]
    # an assertion whose text starts with "harness" states an assumption of the harness about the code's SHAPE (e.g. "realloc
    # doubles", "at most two gather buffers"); if it fails the unit no longer models this code: undecided, never a violation
    hz = [o for o in res.failed if str(o.get("description", "")).startswith("harness")]
    if hz:
        res.infra = "harness assumption no longer holds (unit must be adapted): %s" % [o["description"] for o in hz][:3]
        res.failed = [o for o in res.failed if not str(o.get("description", "")).startswith("harness")]
    # units that only establish the contract a STUB in other units relies on (strongest postcondition of today's code, stronger
    # than the property needs): a failure means the stub must be re-derived, not that the property is violated
    if unit.get("failure_is_infra") and res.failed:
        res.infra = "stub contract no longer matches the code (dependent units must be adapted): %s" % [o.get("tag") or o["id"] for o in res.failed][:4]
        res.failed = []
    # vacuity guard 1: expected obligation classes present
    counts = {}
    for ob in res.obligations:
        counts[ob["class"]] = counts.get(ob["class"], 0) + 1
    for cls, n in unit.get("min_obligations", {}).items():
        if counts.get(cls, 0) < n:
            res.infra = "vacuity guard: expected >= %d '%s' obligations, got %d" % (n, cls, counts.get(cls, 0))
    tags_present = {ob["tag"] for ob in res.obligations if ob["tag"]}
    for t in unit.get("expect_tags", []):
        if t not in tags_present:
            res.infra = "vacuity guard: expected obligation tag '%s' not generated" % t
    # vacuity guard 2: cover points (assertions "COVER ..." that must FAIL, i.e. be reachable)
    if unit.get("cover", True) and not res.infra:
        sat = sum(1 for o in res.cover_obs if o["status"] == "FAILURE")
        res.covers = (sat, len(res.cover_obs))
        if not res.cover_obs:
            res.infra = "vacuity guard: no cover points in harness"
        elif sat != len(res.cover_obs):
            bad = [o["description"] for o in res.cover_obs if o["status"] != "FAILURE"]
            res.infra = "vacuity guard: unreachable cover point(s): %s" % bad[:5]
    res.wall = time.time() - t0
    if not keep:
        for f in (a, b, c):
            if os.path.exists(f):
                os.remove(f)
    return res


def load_registry():
    import registry
    return registry.UNITS


def load_known():
    p = os.path.join(VERIF, "known_findings.json")
    if not os.path.exists(p):
        return {"findings": [], "fixed": []}
    with open(p) as f:
        return json.load(f)


def ob_name(unit_name, ob):
    return "%s:%s" % (unit_name, ob["tag"] or ob["id"])


def match_known(known, prop, unit_name, ob):
    for k in known.get("findings", []):
        if k.get("unit") != unit_name and not unit_name.startswith(k.get("unit", "\0") + "."):
            continue
        if prop not in k.get("properties", [k.get("property")]):
            continue
        pat = k.get("obligation")
        name = ob["tag"] or ob["id"]
        if pat == name or (k.get("regex") and re.fullmatch(pat, name)):
            return k
    return None


def ob_belongs(ob, prop, unit):
    if unit.get("shared_tags"):
        return True     # every obligation of this unit counts for every property the unit serves
    tag = ob.get("tag")
    if tag and re.match(r"^C\d\d", tag):
        return tag.startswith(prop)
    return True


def try_replay(unit, ob, replay_path):
    """Run the unit's native replayer (real code, gcc + ASan/UBSan) on the counterexample."""
    if not unit.get("replay"):
        return None, "no native replayer for this unit"
    cmd = [sys.executable, os.path.join(VERIF, "replay", "run_replay.py"), unit["name"], replay_path]
    try:
        env = dict(os.environ)
        env["VERIF_REPO"] = REPO
        p = subprocess.run(cmd, cwd=VERIF, stdout=subprocess.PIPE, stderr=subprocess.STDOUT, timeout=300, env=env)
        out = p.stdout.decode("utf-8", "replace")
        return ("REPRODUCED" in out), out[-6000:]
    except Exception as ex:
        return None, "replayer error: %s" % ex


def check_property(prop, tier, only_units=None, keep=False, jobs=None):
    t0 = time.time()
    seed = int(os.environ.get("VERIF_SEED", "0") or 0)
    units = [u for u in load_registry() if prop in u["props"]]
    if tier == "quick":
        units = [u for u in units if u.get("tier", "quick") == "quick"]
    if only_units:
        # exact names, or a prefix ending in '.' or '*' selecting a family of units
        units = [u for u in units if u["name"] in only_units or any(o[-1:] in ".*" and u["name"].startswith(o.rstrip("*")) for o in only_units)]
    if not units:
        print("INFRA-ERROR property=%s no units registered" % prop)
        return 2
    known = load_known()
    scratch = tempfile.mkdtemp(prefix="cjet-verif-%s-" % prop)
    results = []
    try:
        jobs = jobs or int(os.environ.get("VERIF_JOBS", "14"))
        # memory budget: units known to need many GB declare mem_budget_gb (their measured peak); they are admitted only while the
        # sum over the running ones stays under VERIF_MEM_GB (default 40) - otherwise the kernel's OOM killer decides
        budget = float(os.environ.get("VERIF_MEM_GB", "40"))
        cond = threading.Condition()
        used = [0.0]
        def run_budgeted(u):
            need = min(float(u.get("mem_budget_gb", 0)), budget)
            with cond:
                while used[0] + need > budget:
                    cond.wait()
                used[0] += need
            try:
                return run_unit(u, tier, scratch, keep)
            finally:
                with cond:
                    used[0] -= need
                    cond.notify_all()
        with cf.ThreadPoolExecutor(max_workers=jobs) as ex:
            futs = {ex.submit(run_budgeted, u): u for u in sorted(units, key=lambda u: -float(u.get("mem_budget_gb", 0)))}
            for fu in cf.as_completed(futs):
                u = futs[fu]
                try:
                    r = fu.result()
                except Exception as e:  # driver bug: infra
                    r = UnitResult(u)
                    r.infra = "driver exception: %r" % e
                results.append(r)
                nfail = len([o for o in r.failed if ob_belongs(o, prop, u)])
                log("[%s] unit %-28s %s  obligations=%d failed=%d covers=%d/%d  %.1fs" % (
                    prop, r.name, "INFRA-ERROR" if r.infra else ("ok" if not nfail else "FAILED"),
                    len(r.obligations), nfail, r.covers[0], r.covers[1], r.wall))
                if r.infra:
                    log("      " + r.infra[:3000])
    finally:
        if not keep:
            shutil.rmtree(scratch, ignore_errors=True)
        else:
            log("scratch kept at " + scratch)
    results.sort(key=lambda r: r.name)
    # best-effort units (thorough tier: "attempted, undecided if it does not finish") never break the check
    undecided = [r for r in results if r.infra and r.unit.get("best_effort")]
    infra = [r for r in results if r.infra and not r.unit.get("best_effort")]
    for r in undecided:
        print("UNDECIDED property=%s unit=%s (best-effort unit: %s)" % (prop, r.name, r.infra.replace("\n", " ")[:160]))
    violations, knowns = [], []
    replay_root = os.path.join(OUT, "replays")
    if not only_units:
        shutil.rmtree(os.path.join(replay_root, prop), ignore_errors=True)
    for r in results:
        for ob in r.failed:
            if not ob_belongs(ob, prop, r.unit):
                continue
            k = match_known(known, prop, r.name, ob)
            if k:
                knowns.append((r, ob, k))
            else:
                violations.append((r, ob))
    for r, ob, k in knowns:
        pass
    seen = set()
    for r, ob, k in knowns:
        key = (k.get("unit"), k.get("obligation"))
        if key in seen:
            continue
        seen.add(key)
        print("KNOWN-FINDING: property=%s %s [%s] %s" % (prop, k.get("what", ""), ob_name(r.name, ob), k.get("id", "")))
    vio_lines = []
    for r, ob in violations:
        name = ob_name(r.name, ob)
        d = os.path.join(replay_root, prop, re.sub(r"[^A-Za-z0-9_.\-]", "_", name))
        os.makedirs(d, exist_ok=True)
        path = os.path.join(d, "replay.json")
        rec = {
                "property": prop, "unit": r.name, "obligation": name, "cbmc_property": ob["id"],
                "class": ob["class"], "description": ob["description"],
                "location": "%s:%s (%s)" % (ob["file"], ob["line"], ob["function"]),
                "kind": r.unit.get("kind", "proof"), "bound": r.unit.get("bound"),
                "counterexample_inputs": ob.get("inputs", {}),
                "native_replay": {"reproduced": None, "output": "not run"},
                "commands": r.cmds, "cbmc_trace": ob.get("trace", []),
        }
        with open(path, "w") as f:
            json.dump(rec, f, indent=1)
        reproduced, rout = try_replay(r.unit, ob, path)
        rec["native_replay"] = {"reproduced": reproduced, "output": rout}
        with open(path, "w") as f:
            json.dump(rec, f, indent=1)
        line = "VIOLATION property=%s replay=%s" % (prop, path)
        line += " obligation=%s" % name
        if not reproduced:
            line += " no-failing-input-found"
        vio_lines.append(line)
    write_evidence(prop, tier, seed, results, violations, knowns, infra, time.time() - t0)
    for l in vio_lines:
        print(l)
    if infra:
        for r in infra:
            print("INFRA-ERROR property=%s unit=%s %s" % (prop, r.name, r.infra.replace("\n", " ")[:300]))
    if violations:
        return 1
    if infra:
        return 2
    print("OK property=%s tier=%s units=%d obligations=%d wall=%.1fs" % (
        prop, tier, len(results), sum(len(r.obligations) for r in results), time.time() - t0))
    return 0


def write_evidence(prop, tier, seed, results, violations, knowns, infra, wall):
    import registry
    meta = getattr(registry, "PROPERTY_META", {}).get(prop, {})
    proof_obs = disc = 0
    bounded = []
    samples = []
    funcs = []
    replaced = set()
    assumptions = set(meta.get("assumptions", []))
    trusted = set(getattr(registry, "TRUSTED_BASE", []))
    unit_rows = []
    known_ids = {(r.name, o["id"]) for r, o, k in knowns}
    for r in results:
        u = r.unit
        # obligations that fail as a recorded known finding are reported separately, not counted as proof obligations
        mine = [o for o in r.obligations if ob_belongs(o, prop, u) and (r.name, o["id"]) not in known_ids]
        ok = [o for o in mine if o["status"] == "SUCCESS"]
        by_class = {}
        for o in mine:
            by_class[o["class"]] = by_class.get(o["class"], 0) + 1
        row = {
            "unit": r.name, "kind": u.get("kind", "proof"), "function_under_contract": u.get("enforce"),
            "functions_in_unit": u.get("functions", [u.get("enforce")] if u.get("enforce") else []),
            "callees_replaced_by_contract": u.get("replace", []),
            "obligations": len(mine), "discharged": len(ok), "by_class": by_class,
            "backend": "cbmc 6.11.0 / SAT " + u.get("solver", "cadical"),
            "solver_wall_s": round(r.solver_wall, 2), "wall_s": round(r.wall, 2),
            "cfg": u.get("cfg", "prod"), "covers_reached": "%d/%d" % r.covers,
            "status": ("undecided (best-effort unit): " if u.get("best_effort") else "infra-error: ") + r.infra[:200] if r.infra else "done",
        }
        if u.get("kind", "proof") == "bounded":
            row["bound"] = u.get("bound", "")
            bounded.append({"unit": r.name, "bound": u.get("bound", ""), "obligations": len(mine), "discharged": len(ok)})
        elif not r.infra:
            proof_obs += len(mine)
            disc += len(ok)
        unit_rows.append(row)
        for f in row["functions_in_unit"]:
            if f and f not in funcs:
                funcs.append(f)
        replaced.update(u.get("replace", []))
        for a in u.get("assumes", []):
            assumptions.add("%s: %s" % (r.name, a))
        tagged = [o for o in mine if o["tag"]]
        for o in (tagged[:3] or mine[:2]):
            samples.append({"unit": r.name, "obligation": o["tag"] or o["id"], "class": o["class"],
                            "status": o["status"], "description": o["description"][:160],
                            "where": "%s:%s" % (o["file"], o["line"])})
    # discharged must not count known-finding failures
    level = meta.get("level", "proof")
    if proof_obs == 0:
        level = "other"
    cov = {
        "obligations": proof_obs,
        "discharged": disc,
        "checker_cmd": (results[0].cmds[-1] if results and results[0].cmds else "cbmc") +
                       "   (per unit: goto-cc -> goto-instrument --dfcc --enforce-contract f --replace-call-with-contract g --apply-loop-contracts -> cbmc; see units)",
        "trusted_base": sorted(trusted | set(meta.get("trusted_base", []))),
        "explanation": meta.get("explanation", "") + " Counts under obligations/discharged are unbounded-proof obligations only; bounded stand-ins are listed under bounded_checks with their bounds and never counted as proved.",
        "samples": samples[:40],
        "units": unit_rows,
        "functions_under_contract": funcs,
        "callees_replaced_by_contract": sorted(replaced),
        "bounded_checks": bounded,
        "known_findings_reported": sorted({"%s:%s" % (r.name, o["tag"] or o["id"]) for r, o, k in knowns}),
        "failed_obligations": [ob_name(r.name, o) for r, o in violations],
        "infra_errors": [{"unit": r.name, "error": r.infra[:300]} for r in infra],
        "not_decided": meta.get("not_decided", []),
        "exhaustive": False,
    }
    ev = {
        "property_id": prop, "tier": tier, "seed": seed, "level": level, "coverage": cov,
        "assumptions": sorted(assumptions), "wall_s": round(wall, 2), "violations": len(violations),
    }
    os.makedirs(os.path.join(OUT, "evidence"), exist_ok=True)
    with open(os.path.join(OUT, "evidence", prop + ".json"), "w") as f:
        json.dump(ev, f, indent=1)


def main(argv):
    import argparse
    ap = argparse.ArgumentParser()
    ap.add_argument("property")
    ap.add_argument("--tier", default=os.environ.get("VERIF_TIER", "quick"), choices=["quick", "thorough"])
    ap.add_argument("--unit", action="append")
    ap.add_argument("--keep", action="store_true")
    ap.add_argument("--jobs", type=int)
    a = ap.parse_args(argv)
    return check_property(a.property, a.tier, a.unit, a.keep, a.jobs)


if __name__ == "__main__":
    sys.exit(main(sys.argv[1:]))
