/* units cfg.*: src/config.c with the real set_peer_name of src/peer.c (properties C02 / C15 / C06: the "config" request is
 * answered through exactly one response builder call, a non-string name changes nothing, and a name copy that fails leaves
 * the peer without a name - never with a dangling one - and leaks nothing). */
#include "common.h"
#include <stdarg.h>
#include <stdio.h>
#include <string.h>
#include <stdlib.h>
#include "log_stub.h"
#include "cjson_model.h"
int snprintf(char *str, size_t size, const char *fmt, ...) { (void)fmt; if (size > 0) str[0] = 0; return 0; }
int vsnprintf(char *str, size_t size, const char *fmt, va_list ap) { (void)fmt; (void)ap; if (size > 0) str[0] = 0; return 0; }

#include "peer.c"
#include "config.c"

/* environment of peer.c (not reached by config_peer) */
int add_routing_table(struct peer *p) { (void)p; return 0; }
void delete_routing_table(struct peer *p) { (void)p; }
void remove_routing_info_from_peer(const struct peer *p) { (void)p; }
void remove_peer_from_routing_table(const struct peer *p, const struct peer *r) { (void)p; (void)r; }
void remove_all_fetchers_from_peer(struct peer *p) { (void)p; }
void remove_all_elements_from_peer(struct peer *p) { (void)p; }
static unsigned verif_live_strings; static const char *verif_old_name; static bool verif_old_released, verif_copy_failed;
void cjet_free(void *p) { if (p != NULL) verif_live_strings--; if (p != NULL && p == verif_old_name) verif_old_released = true; free(p); }
#ifndef CFG_FAIL
#define CFG_FAIL 0
#endif
char *duplicate_string(const char *s)
{
	if (CFG_FAIL && nondet_bool()) { verif_copy_failed = true; return NULL; }
	char *d = malloc(3);
	__CPROVER_assume(d != NULL);
	d[0] = s[0]; d[1] = s[0] ? s[1] : 0; d[2] = 0;   /* names of <= 2 characters */
	verif_live_strings++;
	return d;
}
static unsigned verif_builder_calls; static bool verif_built_error;
cJSON *create_error_response_from_request(const struct peer *p, const cJSON *request, int code, const char *tag, const char *reason) { (void)p; (void)request; (void)code; (void)tag; (void)reason; verif_builder_calls++; verif_built_error = true; return NULL; }
cJSON *create_success_response_from_request(const struct peer *p, const cJSON *request) { (void)p; (void)request; verif_builder_calls++; return NULL; }

void h_cfg_peer(void)
{
	struct peer p;
	bool had_name = nondet_bool();
	p.name = NULL;
	if (had_name) { p.name = malloc(3); __CPROVER_assume(p.name != NULL); p.name[0] = 'o'; p.name[1] = 0; verif_live_strings = 1; }
	char *old_name = p.name;
	verif_old_name = old_name;
	cJSON request, params, name; cJSON any; request = any; params = any; name = any;
	char pname[7] = "params", nname[5] = "name", newname[3];
	newname[0] = (char)nondet_u8(); newname[1] = (char)nondet_u8(); newname[2] = 0;
	int t = nondet_int();
	__CPROVER_assume(t == cJSON_String || t == cJSON_Number || t == cJSON_True || t == cJSON_Object);
	name.type = t; name.next = name.prev = name.child = NULL; name.string = nname; name.valuestring = newname;
	bool has_params = nondet_bool(), has_name = nondet_bool();
	params.type = cJSON_Object; params.next = params.prev = NULL; params.child = has_name ? &name : NULL; params.string = pname; params.valuestring = NULL;
	request.type = cJSON_Object; request.next = request.prev = NULL; request.child = has_params ? &params : NULL; request.string = NULL; request.valuestring = NULL;
	cJSON *r = config_peer(&p, &request);
	(void)r;
	bool renamed = has_params && has_name && t == cJSON_String;
	__CPROVER_assert(verif_builder_calls == 1, "C02.config.exactly-one-response-is-built");
	__CPROVER_assert(verif_built_error == !(has_params && (!has_name || t == cJSON_String)), "C02.config.error-exactly-for-missing-params-or-a-non-string-name");
	if (!renamed) __CPROVER_assert(p.name == old_name, "C02.config.refused-request-leaves-the-name-alone");
	if (renamed) {
		bool copied = false;
		if (p.name != NULL) copied = p.name != old_name && p.name[0] == newname[0] && (newname[0] == 0 || p.name[1] == newname[1]);
		/* the peer ends with the new copy, with its old, still allocated name, or (after a failed copy) without a name - never with the released one */
		__CPROVER_assert((p.name == NULL && verif_copy_failed) || copied || (p.name == old_name && !verif_old_released), "C15.config.name-is-the-new-copy-or-absent-never-the-released-one");
	}
	__CPROVER_assert(verif_live_strings == (p.name != NULL ? 1u : 0u), "C15.config.old-name-released-exactly-once");
	const char *shown = get_peer_name(&p);
	__CPROVER_assert(shown != NULL && (p.name != NULL ? shown == p.name : true), "C15.config.peer-name-stays-printable");
	if (p.name != NULL) free(p.name);
	VERIF_COVER(renamed && had_name && p.name != NULL, "renamed");
	VERIF_COVER(verif_built_error && has_params, "non-string name");
#if CFG_FAIL
	VERIF_COVER(renamed && had_name && verif_copy_failed, "name copy failed while the peer had a name");
#endif
}
