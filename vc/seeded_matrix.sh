#!/bin/bash
# Runs every seeded change in /verif/seeded against the quick check of the property it breaks (on a scratch copy of
# /repo, never on /repo itself) and writes /verif/seeded/RESULTS.md.  Patches that no longer apply because a later
# fix: commit changed the same lines use patch_ported_to_current_tree.diff when present.
# usage: vc/seeded_matrix.sh [parallel workers, default 3] [only these ids...]
cd "$(dirname "$0")/.."
workers=${1:-3}; shift
ids="$*"; [ -z "$ids" ] && ids=$(ls -d seeded/C*-* | xargs -n1 basename | sort)
rows=$(mktemp -d /tmp/cjet-seedrows-XXXXXX)
one() {
  id=$1; rows=$2; prop=${id%-*}; d=seeded/$id
  patch=$d/patch.diff; [ -f $d/patch_ported_to_current_tree.diff ] && patch=$d/patch_ported_to_current_tree.diff
  tmp=$(mktemp -d /tmp/cjet-seed-XXXXXX); mkdir -p $tmp/repo $tmp/out; cp -r /repo/src /repo/cmake $tmp/repo/
  if ! (cd $tmp/repo && patch -p1 -s < /verif/$patch) >/dev/null 2>&1; then
    echo "| $id | $prop | patch does not apply to the current tree (superseded by a fix: commit) | |" > $rows/$id; rm -rf $tmp; return
  fi
  VERIF_REPO=$tmp/repo VERIF_OUT=$tmp/out VERIF_JOBS=5 python3 vc/driver.py $prop > $tmp/log 2>/dev/null; rc=$?
  obs=$(grep -a '^VIOLATION' $tmp/log | sed 's/.*obligation=//; s/ no-failing-input-found//' | head -3 | tr '\n' ' ')
  case $rc in 0) v="MISSED (exit 0)";; 1) v="CAUGHT (exit 1)";; *) v="UNDECIDED (exit $rc)";; esac
  echo "| $id | $prop | $v | $obs |" > $rows/$id
  rm -rf $tmp
}
export -f one
echo $ids | tr ' ' '\n' | xargs -P $workers -I{} bash -c 'one {} '"$rows"
out=seeded/RESULTS.md
if [ $# -eq 0 ]; then
  echo "| seeded change | property | verdict of ./check <property> (quick tier) on the changed tree | first failing obligations |" > $out
  echo "|---|---|---|---|" >> $out
  cat $(ls $rows/* | sort) >> $out
else
  cat $(ls $rows/* | sort)
fi
rm -rf $rows
