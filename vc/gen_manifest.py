#!/usr/bin/env python3
"""Regenerates /verif/MANIFEST.json from registry.py (units, PROPERTY_META, NOT_APPLICABLE)."""
import json
import os
import subprocess
import sys

VERIF = os.path.dirname(os.path.dirname(os.path.abspath(__file__)))
sys.path.insert(0, VERIF)
import registry

props = [json.loads(l) for l in open(os.path.join(VERIF, "properties.jsonl"))]
claimed = sorted({p for u in registry.UNITS for p in u["props"] if p in registry.PROPERTY_META})
hooks = subprocess.run(["git", "-C", "/repo", "log", "--format=%H %s"], stdout=subprocess.PIPE).stdout.decode().split("\n")
hook_commits = [l.split()[0] for l in hooks if " verif:" in l]

checks = []
for pid in claimed:
    m = registry.PROPERTY_META[pid]
    checks.append({
        "property_id": pid,
        "quick_cmd": "./check %s --tier quick" % pid,
        "thorough_cmd": "./check %s --tier thorough" % pid,
        "evidence_file": "/verif/evidence/%s.json" % pid,
        "replay_cmd_template": "cat {path}",
        "engine": "cbmc-contracts",
        "level_claimed": {"category": m.get("level", "proof"), "text": m["level_text"], "design_ref": m.get("design_ref", "DESIGN.md section 3, " + pid)},
        "level_note": m["level_note"],
        "technique": m.get("technique", "contract-based deductive verification with CBMC: per-function PRE/POST contracts (pure C spec functions, named obligations, explicit frame assertions) enforced on hand-instrumented harnesses over the real source, callees replaced by their contracts (stubs / assert-unreachable bodies), all loops closed by constant bounds with unwinding assertions"),
    })
na = []
for p in props:
    if p["id"] not in claimed:
        na.append({"property_id": p["id"], "reason": registry.NOT_APPLICABLE.get(p["id"], "verification units for this property are not built yet; no claim is made")})
man = {
    "version": 1,
    "setup_cmd": "python3 vc/selftest.py --setup",
    "hooks": {
        "guard": "CJET_VERIF",
        "enable": "wrapper translation units in /verif/units #include the real /repo/src files and are compiled by goto-cc with -DCJET_VERIF; src/verif_hooks.h then expands VERIF_LOOP(...) (loop contracts) and VERIF_GHOST(...) (ghost statements on verif_* variables); without the define both expand to nothing",
        "baseline_off_cmd": "cmake --build /repo/_build && ctest --test-dir /repo/_build -j8 --timeout 900",
        "source_commits": hook_commits,
        "add_only": False,
    },
    "engines": [{
        "name": "cbmc-contracts", "path": "/verif/vc/driver.py", "serves_properties": claimed,
        "kind_free_text": "contract-based deductive verification: CBMC 6.11 code contracts (requires/ensures/assigns, loop invariants/decreases) written in /verif/contracts and in guarded hooks in /repo/src, enforced function by function with goto-instrument --dfcc, callees replaced by their contracts, SAT back ends CaDiCaL/kissat",
    }],
    "checks": checks,
    "not_applicable": na,
    "notes": registry.NOTES,
}
with open(os.path.join(VERIF, "MANIFEST.json"), "w") as f:
    json.dump(man, f, indent=1)
print("claimed:", claimed)
