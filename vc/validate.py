#!/usr/bin/env python3-vt
import json, sys, glob, jsonschema
m=json.load(open('/verif/MANIFEST.json')); jsonschema.validate(m,json.load(open('/root/.vp/MANIFEST.schema.json'))); print('manifest ok: claimed', [c['property_id'] for c in m['checks']])
for f in sorted(glob.glob('/verif/evidence/*.json')):
    e=json.load(open(f)); jsonschema.validate(e,json.load(open('/root/.vp/EVIDENCE.schema.json'))); print(f, 'ok', e['level'], e['coverage'].get('obligations'), e['coverage'].get('discharged'), e['wall_s'])
