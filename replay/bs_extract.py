"""Inputs for the bs replayer from a CBMC trace of bs.writev: pending length, gather list, kernel script."""
import re


def extract(rec, trace_values, to_int):
    trace = rec.get("cbmc_trace", [])
    ci = rec.get("counterexample_inputs", {})
    def gi(name, default=0):
        v = to_int(str(ci.get(name, default)))
        return default if v is None else v
    pend0, count = gi("pend0"), gi("count", 2)
    l0 = l1 = 0
    script = []
    for line in trace:
        m = re.search(r"iov\[0l?\]\.iov_len = (\d+)", line)
        if m: l0 = int(m.group(1))
        m = re.search(r"iov\[1l?\]\.iov_len = (\d+)", line)
        if m: l1 = int(m.group(1))
        m = re.search(r"\baccept = (\d+)", line)
        if m: script.append(int(m.group(1)))
        m = re.search(r"verif_errno = (\d+)", line)
        if m: script.append(-int(m.group(1)))
    return [[pend0, count, l0, l1] + script]
