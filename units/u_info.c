/* units info.*: src/info.c (properties C15 / C02 / C06: the "info" request handler builds its answer with seven
 * allocating insertions; under any subset of failing allocations it returns either the complete info object or
 * nothing, owns every node exactly once, and hands exactly one value to the response builder).
 * JSON library: the executable model stubs/cjson_model.h.  The response builder is a recording stub with the
 * contract proved by resp.from_request / resp.result (takes ownership of `result` on every path). */
#include "common.h"
#include <string.h>
#include "log_stub.h"
#include "cjson_model.h"

#ifndef INFO_FAIL
#define INFO_FAIL 0
#endif

static int verif_builder_calls;
static bool verif_result_complete;
static bool verif_result_null;
static bool verif_result_type_ok;

static int count_members(const cJSON *o, const char *name)
{
	int n = 0;
	for (const cJSON *c = o->child; c != NULL; c = c->next) if (c->string != NULL && strcmp(c->string, name) == 0) n++;
	return n;
}

static int count_all(const cJSON *o)
{
	int n = 0;
	for (const cJSON *c = o->child; c != NULL; c = c->next) n++;
	return n;
}

static bool is_string_member(const cJSON *o, const char *name)
{
	const cJSON *m = cJSON_GetObjectItem(o, name);
	return count_members(o, name) == 1 && m != NULL && m->type == cJSON_String && m->valuestring != NULL;
}

/* the answer the protocol documents: name, version, protocolVersion, features{batches, authentication, fetch} */
static bool info_complete(const cJSON *i)
{
	if (i == NULL || i->type != cJSON_Object || count_all(i) != 4) return false;
	if (!is_string_member(i, "name") || !is_string_member(i, "version") || !is_string_member(i, "protocolVersion")) return false;
	const cJSON *f = cJSON_GetObjectItem(i, "features");
	if (count_members(i, "features") != 1 || f == NULL || f->type != cJSON_Object || count_all(f) != 3) return false;
	const cJSON *b = cJSON_GetObjectItem(f, "batches");
	const cJSON *a = cJSON_GetObjectItem(f, "authentication");
	if (count_members(f, "batches") != 1 || b == NULL || b->type != cJSON_True) return false;
	if (count_members(f, "authentication") != 1 || a == NULL || a->type != cJSON_True) return false;
	return is_string_member(f, "fetch");
}

#include "info.c"

/* contract of create_result_response_from_request as proved by resp.from_request / resp.result: `result` is owned by
 * the builder on every path (inserted into the returned response, or deleted when no response is built) */
cJSON *create_result_response_from_request(const struct peer *p, const cJSON *request, cJSON *result, const char *result_type)
{
	(void)p; (void)request;
	verif_builder_calls++;
	verif_result_null = result == NULL;
	verif_result_complete = info_complete(result);
	verif_result_type_ok = strcmp(result_type, "result") == 0;
	if (result == NULL) return NULL;        /* add_subobject_to_object(): a NULL value is "no response" */
	cJSON *root = cJSON_CreateObject();
	if (root == NULL || !cJSON_AddItemToObject(root, result_type, result)) {
		cJSON_Delete(result);
		cJSON_Delete(root);
		return NULL;
	}
	return root;
}


void log_peer_err(const struct peer *p, const char *fmt, ...) { (void)p; (void)fmt; }

void h_info(void)
{
	struct peer p;
	cJSON request; cJSON any; request = any;
	request.type = cJSON_Object; request.next = request.prev = request.child = NULL; request.string = NULL; request.valuestring = NULL;
	verif_cj_may_fail = INFO_FAIL;
	cJSON *r = handle_info(&request, &p);
	verif_cj_may_fail = false;
	__CPROVER_assert(verif_builder_calls == 1, "C02.info.exactly-one-value-handed-to-the-response-builder");
	__CPROVER_assert(verif_result_type_ok, "C02.info.answer-is-a-result");
	__CPROVER_assert(verif_result_null || verif_result_complete, "C15.info.answer-is-complete-or-absent-never-partial");
	if (!INFO_FAIL) __CPROVER_assert(verif_result_complete, "C02.info.answer-lists-name-version-protocol-and-features");
	if (r != NULL) {
		__CPROVER_assert(info_complete(cJSON_GetObjectItem(r, "result")), "C15.info.sent-answer-is-complete");
		cJSON_Delete(r);
	}
	__CPROVER_assert(verif_cj_live_nodes == 0, "C15.info.allocation-failure-leaks-nothing");
	VERIF_COVER(r != NULL, "info answered");
#if INFO_FAIL
	VERIF_COVER(verif_result_null, "info not built");
#endif
}
