#!/usr/bin/env python3
"""Setup / self-test: checks that the tools the framework needs are present (everything else is
rebuilt from /repo on every run)."""
import shutil
import sys

need = ["cbmc", "goto-cc", "goto-instrument", "gcc", "python3"]
missing = [t for t in need if not shutil.which(t)]
if missing:
    print("missing tools: %s" % missing)
    sys.exit(1)
print("setup ok: " + ", ".join(need))
