/* units http.*: src/http_server.c, src/http_connection.c (property C13). */
#include "common.h"
#include <stdlib.h>
#include <string.h>
#include "log_stub.h"
#include "http_server.c"
#include "http_connection.c"

/* ---- environment -------------------------------------------------------------------------------------------- */
void *cjet_malloc(size_t n) { return malloc(n); }
static unsigned verif_conn_freed;
void cjet_free(void *p) { verif_conn_freed++; free(p); }
static unsigned verif_closed, verif_written; static char verif_status[13];
static int stub_close(void *this_ptr) { (void)this_ptr; verif_closed++; return 0; }
static int stub_writev(void *this_ptr, struct socket_io_vector *io_vec, unsigned int count)
{
	(void)this_ptr;
	__CPROVER_assert(count == 1 && io_vec[0].iov_len >= 12, "C13.start.error-response-is-a-status-line");
	for (unsigned i = 0; i < 12; i++) verif_status[i] = ((const char *)io_vec[0].iov_base)[i];
	verif_written++;
	return 0;
}
/* ghost: peers created through the URL handler's create hook and not yet released */
static int verif_live_peers;
static int stub_create(struct http_connection *c) { (void)c; verif_live_peers++; return nondet_bool() ? 0 : -1; }

/* assumed contract of the vendored http_parser (2.5 kLOC, not verified): for a request line it may invoke on_url with
 * a sub-range of the buffer and returns nparsed <= len; in particular it may call on_url and STILL reject the line
 * (e.g. "GET /api/jet/ HTTX/1.1"): the URL is complete before the rest of the line is validated. */
static bool verif_parser_calls_url, verif_parser_rejects_after;
static const char *verif_url; static size_t verif_url_len;
size_t http_parser_execute(http_parser *parser, const http_parser_settings *settings, const char *data, size_t len)
{
	(void)data;
	if (verif_parser_calls_url) {
		int r = settings->on_url(parser, verif_url, verif_url_len);
		if (r != 0) return len > 0 ? len - 1 : 0;
	}
	if (verif_parser_rejects_after) return len > 0 ? len - 1 : 0;
	return len;
}
/* assumed contract of http_parser_parse_url: finds the path component as a sub-range of the URL or fails */
static bool verif_url_ok; static uint16_t verif_path_off, verif_path_len;
void http_parser_url_init(struct http_parser_url *u) { memset(u, 0, sizeof(*u)); }
int http_parser_parse_url(const char *buf, size_t buflen, int is_connect, struct http_parser_url *u)
{
	(void)buf; (void)is_connect;
	if (!verif_url_ok) return 1;
	__CPROVER_assume((size_t)verif_path_off + verif_path_len <= buflen);
	if (nondet_bool()) { u->field_set = (1 << UF_PATH); u->field_data[UF_PATH].off = verif_path_off; u->field_data[UF_PATH].len = verif_path_len; }
	return 0;
}
void http_parser_settings_init(http_parser_settings *s) { memset(s, 0, sizeof(*s)); }
void http_parser_init(http_parser *p, enum http_parser_type t) { (void)t; memset(p, 0, sizeof(*p)); }

/* ---- http.url: the configured target is matched as a prefix of the request path, completely --------------- */
void h_http_url(void)
{
	char t0[4], t1[4], url[6];
	t0[3] = 0; t1[3] = 0; url[5] = 0;
	__CPROVER_assume(t0[0] != 0 && t1[0] != 0);
	struct url_handler h[2]; struct http_server srv;
	h[0].request_target = t0; h[1].request_target = t1;
	srv.handler = h; srv.num_handlers = nondet_bool() ? 1 : 2;
	size_t ulen = nondet_size();
	__CPROVER_assume(ulen <= 5);
	const struct url_handler *r = find_url_handler(&srv, url, ulen);
	bool m[2];
	for (unsigned i = 0; i < 2; i++) {
		size_t tl = strlen(h[i].request_target);
		m[i] = tl <= ulen;
		for (size_t k = 0; k < tl && m[i]; k++) if (url[k] != h[i].request_target[k]) m[i] = false;
	}
	const struct url_handler *want = m[0] ? &h[0] : ((srv.num_handlers == 2 && m[1]) ? &h[1] : NULL);
	__CPROVER_assert(r == want, "C13.url.handler-selected-iff-the-path-starts-with-its-whole-target");
	VERIF_COVER(r == &h[1], "second handler");
	VERIF_COVER(r == NULL && ulen == 3 && url[0] == t0[0] && url[1] == t0[1] && t0[2] != 0, "path differs from the target only in its last character");
}

/* ---- http.start: the request line -------------------------------------------------------------------------- */
void h_http_start(void)
{
	struct http_connection *c = malloc(sizeof(*c));
	__CPROVER_assume(c != NULL);
	struct url_handler h; struct http_server srv;
	char target[3] = "/a";
	h.request_target = target; h.create = nondet_bool() ? stub_create : NULL;
	h.on_header_field = NULL; h.on_header_value = NULL; h.on_headers_complete = NULL; h.on_body = NULL; h.on_message_complete = NULL;
	srv.handler = &h; srv.num_handlers = 1;
	c->server = &srv; c->status_code = 0; c->parser.method = nondet_bool() ? HTTP_GET : HTTP_CONNECT;
	c->br.close = stub_close; c->br.writev = stub_writev; c->br.this_ptr = NULL;
	c->parser_settings.on_url = on_url;
	uint8_t line[8]; size_t len = nondet_size();
	__CPROVER_assume(len <= 8);
	char url[4]; url[3] = 0;
	verif_url = url; verif_url_len = 3; verif_path_off = 0; verif_path_len = nondet_u16();
	verif_parser_calls_url = nondet_bool(); verif_parser_rejects_after = nondet_bool(); verif_url_ok = nondet_bool();
	enum bs_read_callback_return r = read_start_line(c, line, len);
	if (r == BS_CLOSED) {
		__CPROVER_assert(verif_closed == 1 && verif_conn_freed == 1, "C13.start.refused-exchange-releases-the-connection-once");
		__CPROVER_assert(len == 0 || (verif_written == 1 && verif_status[9] >= '4' && verif_status[9] <= '5'), "C13.start.refused-exchange-is-answered-with-an-http-error-status");
		__CPROVER_assert(verif_live_peers == 0, "C13.start.refused-exchange-leaves-no-peer-behind");
	} else {
		__CPROVER_assert(r == BS_OK && verif_closed == 0 && verif_conn_freed == 0 && verif_written == 0, "C13.start.accepted-line-keeps-the-connection");
		free(c);
	}
	VERIF_COVER(r == BS_OK && verif_live_peers == 1, "target matched, peer created");
	VERIF_COVER(r == BS_CLOSED && len > 0 && verif_status[9] == '4' && verif_status[11] == '4', "404");
	VERIF_COVER(r == BS_CLOSED && len == 0, "closed half-way");
}
