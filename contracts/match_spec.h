/* Reference predicates for the fetch matchers (property C16), written from the property statement:
 * byte-wise comparison, or ASCII case-insensitive comparison (only 'A'-'Z' fold to 'a'-'z'). */
#ifndef VERIF_MATCH_SPEC_H
#define VERIF_MATCH_SPEC_H
#include <stdbool.h>
#include <stddef.h>

static inline unsigned char ms_fold(unsigned char c, bool ci) { return (ci && c >= 'A' && c <= 'Z') ? (unsigned char)(c + 32) : c; }
static inline size_t ms_len(const char *s) { size_t n = 0; while (s[n] != 0) n++; return n; }
/* does `op` occur in `path` at offset i (whole operand) */
static inline bool ms_occurs_at(const char *path, size_t plen, const char *op, size_t olen, size_t i, bool ci)
{
	if (i + olen > plen) return false;
	for (size_t j = 0; j < olen; j++)
		if (ms_fold((unsigned char)path[i + j], ci) != ms_fold((unsigned char)op[j], ci)) return false;
	return true;
}
static inline bool ms_equals(const char *path, const char *op, bool ci)
{
	size_t plen = ms_len(path), olen = ms_len(op);
	return plen == olen && ms_occurs_at(path, plen, op, olen, 0, ci);
}
static inline bool ms_startswith(const char *path, const char *op, bool ci)
{
	return ms_occurs_at(path, ms_len(path), op, ms_len(op), 0, ci);
}
static inline bool ms_endswith(const char *path, const char *op, bool ci)
{
	size_t plen = ms_len(path), olen = ms_len(op);
	return olen <= plen && ms_occurs_at(path, plen, op, olen, plen - olen, ci);
}
static inline bool ms_contains(const char *path, const char *op, bool ci)
{
	size_t plen = ms_len(path), olen = ms_len(op);
	for (size_t i = 0; i <= plen; i++)
		if (ms_occurs_at(path, plen, op, olen, i, ci)) return true;
	return false;
}
#endif
