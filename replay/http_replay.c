/* Native replayer for http.start: the REAL http_connection.c + http_server.c + vendored http_parser.c.
 * A request line whose URL names the configured target but whose rest is malformed: the URL callback creates the
 * peer, the parser then rejects the line, read_start_line frees the connection only. */
#include <stdio.h>
#include <stdlib.h>
#include <string.h>
#include <stdint.h>
void log_err(const char *f, ...) { (void)f; }
void log_warn(const char *f, ...) { (void)f; }
void log_info(const char *f, ...) { (void)f; }
void *cjet_malloc(size_t n) { return malloc(n); }
void cjet_free(void *p) { free(p); }
#include "http_server.c"
#include "http_connection.c"
static int live_peers, closed, written;
static int create_peer(struct http_connection *c) { (void)c; live_peers++; return 0; }
static int rd_close(void *t) { (void)t; closed++; return 0; }
static int rd_writev(void *t, struct socket_io_vector *v, unsigned n) { (void)t; (void)n; written++; printf("response: %.*s", (int)v[0].iov_len, (const char *)v[0].iov_base); return 0; }
static int rd_until(void *t, const char *d, read_handler h, void *ctx) { (void)t; (void)d; (void)h; (void)ctx; return 0; }
static int rd_exactly(void *t, size_t n, read_handler h, void *ctx) { (void)t; (void)n; (void)h; (void)ctx; return 0; }
static void rd_seterr(void *t, error_handler h, void *c) { (void)t; (void)h; (void)c; }
int main(void)
{
	struct url_handler h = { "/api/jet/", create_peer, NULL, NULL, NULL, NULL, NULL };
	struct http_server srv; memset(&srv, 0, sizeof(srv)); srv.handler = &h; srv.num_handlers = 1;
	struct buffered_reader rd = { NULL, rd_exactly, NULL, rd_until, rd_writev, rd_close, rd_seterr };
	struct http_connection *c = alloc_http_connection();
	init_http_connection(c, &srv, &rd, false);
	char line[] = "GET /api/jet/ HTTX/1.1\r\n";
	printf("request line: %s", line);
	enum bs_read_callback_return r = read_start_line(c, (uint8_t *)line, strlen(line));
	printf("read_start_line -> %s, connection closed %d time(s), peers created and still registered: %d\n", r == BS_CLOSED ? "BS_CLOSED" : "BS_OK", closed, live_peers);
	if (r == BS_CLOSED && live_peers != 0) { printf("REPRODUCED: the refused exchange left a peer behind\n"); return 1; }
	printf("NOT-REPRODUCED\n");
	return 0;
}
