/* Ghost zlib: inflate() / deflate() of src/zlib replaced by their ASSUMED contracts (zlib.h) - they read at most avail_in
 * bytes from next_in, write at most avail_out bytes to next_out, advance the four fields and return a status.  The stubs
 * CHECK what cjet hands them (both windows lie inside live buffers) and record ghost facts.  Used by units/u_comp.c and
 * units/ws.c (comp.sendframe). */
#ifndef VERIF_ZLIB_GHOST_H
#define VERIF_ZLIB_GHOST_H
#include "zlib.h"
#ifndef COMP_CALLS
#define COMP_CALLS 3
#endif
/* ---- ghost zlib -------------------------------------------------------------------------------------------- */
static unsigned verif_inflate_calls, verif_deflate_calls, verif_end_calls;
static size_t verif_in_total;          /* what cjet announced as input at the first inflate() call of a message */
static bool verif_in_ok;               /* ... and that input was the expected byte string (checked at the watched position) */
static size_t verif_in_watch; static uint8_t verif_in_watch_byte; static bool verif_in_watch_seen;
static bool verif_tail_ok;
static size_t verif_out_total;         /* bytes inflate() produced so far */
static bool verif_out_contiguous = true; static const uint8_t *verif_out_last;
static int verif_last_ret;

int inflate(z_streamp strm, int flush)
{
	(void)flush;
	verif_inflate_calls++;
	__CPROVER_assume(verif_inflate_calls <= COMP_CALLS);
	__CPROVER_assert(strm->avail_in == 0 || __CPROVER_r_ok(strm->next_in, strm->avail_in), "C19.inflate.input-window-lies-inside-a-live-buffer");
	__CPROVER_assert(strm->avail_out == 0 || __CPROVER_w_ok(strm->next_out, strm->avail_out), "C19.inflate.output-window-lies-inside-a-live-buffer");
	if (verif_inflate_calls == 1) {
		verif_in_total = strm->avail_in;
		if (strm->avail_in >= 4) {
			const uint8_t *t = strm->next_in + (strm->avail_in - 4);
			verif_tail_ok = t[0] == 0x00 && t[1] == 0x00 && t[2] == 0xff && t[3] == 0xff;
			if (verif_in_watch < strm->avail_in - 4) { verif_in_watch_byte = strm->next_in[verif_in_watch]; verif_in_watch_seen = true; }
		}
	}
	int ret = nondet_int();
	__CPROVER_assume(ret == Z_OK || ret == Z_STREAM_END || ret == Z_NEED_DICT || ret == Z_BUF_ERROR || ret == Z_DATA_ERROR || ret == Z_MEM_ERROR || ret == Z_STREAM_ERROR);
	verif_last_ret = ret;
	if (ret < 0 && ret != Z_BUF_ERROR) return ret;
	unsigned cin = nondet_uint(), cout = nondet_uint();
	__CPROVER_assume(cin <= strm->avail_in && cout <= strm->avail_out);
	if (ret == Z_BUF_ERROR) __CPROVER_assume(cin == 0 && cout == 0);        /* Z_BUF_ERROR: no progress was possible */
	/* the bytes it writes are arbitrary and are not modelled (fresh heap memory is arbitrary in cbmc anyway); what is
	 * tracked is WHERE they go: every call must continue exactly where the previous one stopped, i.e. at offset
	 * verif_out_total of the output object (realloc keeps offsets) - so the object's first verif_out_total bytes are the
	 * inflated stream, in order, whatever the growth policy did in between */
	if (__CPROVER_POINTER_OFFSET(strm->next_out) != verif_out_total) verif_out_contiguous = false;
	verif_out_last = strm->next_out;
	verif_out_total += cout;
	strm->next_in += cin; strm->avail_in -= cin;
	strm->next_out += cout; strm->avail_out -= cout;
	strm->total_in += cin; strm->total_out += cout;
	return ret;
}
int inflateEnd(z_streamp strm) { (void)strm; verif_end_calls++; return Z_OK; }
int deflateEnd(z_streamp strm) { (void)strm; verif_end_calls++; return Z_OK; }
int inflateInit2_(z_streamp strm, int windowBits, const char *version, int stream_size) { (void)strm; (void)windowBits; (void)version; (void)stream_size; return Z_OK; }
int deflateInit2_(z_streamp strm, int level, int method, int windowBits, int memLevel, int strategy, const char *version, int stream_size)
{ (void)strm; (void)level; (void)method; (void)windowBits; (void)memLevel; (void)strategy; (void)version; (void)stream_size; return Z_OK; }

/* deflate with Z_SYNC_FLUSH / Z_FULL_FLUSH: the complete output for this input is `verif_need` bytes (>= 5: at least one
 * block plus the 00 00 FF FF marker; how many is zlib's business - any value up to deflateBound + flush marker); it emits
 * as much of it as fits.  Z_BUF_ERROR when nothing at all could be done. */
static size_t verif_need; static bool verif_deflate_complete; static int verif_deflate_flush;
int deflate(z_streamp strm, int flush)
{
	verif_deflate_flush = flush;
	verif_deflate_calls++;
	__CPROVER_assert(strm->avail_in == 0 || __CPROVER_r_ok(strm->next_in, strm->avail_in), "C19.deflate.input-window-lies-inside-a-live-buffer");
	__CPROVER_assert(strm->avail_out == 0 || __CPROVER_w_ok(strm->next_out, strm->avail_out), "C19.deflate.output-window-lies-inside-a-live-buffer");
	if (nondet_bool()) return Z_STREAM_ERROR;
	if (strm->avail_out == 0) return Z_BUF_ERROR;
	size_t emit = verif_need <= strm->avail_out ? verif_need : strm->avail_out;
	/* the bytes it emits are arbitrary and not modelled, except the flush marker that ends a complete block */
	if (emit == verif_need) {
		strm->next_out[emit - 4] = 0x00; strm->next_out[emit - 3] = 0x00; strm->next_out[emit - 2] = 0xff; strm->next_out[emit - 1] = 0xff;
		verif_deflate_complete = true;
	}
	strm->next_in += strm->avail_in; strm->avail_in = 0;
	strm->next_out += emit; strm->avail_out -= (unsigned)emit;
	return Z_OK;
}

#endif
