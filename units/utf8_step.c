/* unit utf8.step: is_byte_valid against one step of the RFC 3629 automaton (loop-free). */
#include "common.h"
#include "utf8.h"
uint8_t verif_u8_g; const uint8_t *verif_u8_base; size_t verif_u8_n;
#include "utf8_checker.c"

void h_utf8_step(void)
{
	struct cjet_utf8_checker c;
	uint8_t byte;
	bool r = is_byte_valid(&c, byte);
	VERIF_COVER(r, "r");
	VERIF_COVER(!r, "!r");
	VERIF_COVER(c.next_byte == 4, "c.next_byte == 4");
}

void h_utf8_init(void)
{
	struct cjet_utf8_checker c;
	cjet_init_checker(&c);
	VERIF_COVER(1, "returned");
}
