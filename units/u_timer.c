/* unit to.value: src/timer.c (property C14: timeouts below one millisecond or of non-numeric type are
 * refused; otherwise the deadline is the given value; absent -> the default). */
#include "common.h"
#include "log_stub.h"
#include "json/cJSON.h"
#include "timer.c"

static unsigned verif_err; static cJSON verif_err_obj;
cJSON *create_error_response_from_request(const struct peer *p, const cJSON *request, int code, const char *tag, const char *reason)
{
	(void)p; (void)request; (void)tag; (void)reason;
	__CPROVER_assert(code == INVALID_PARAMS, "C14.value.refusal-is-invalid-params");
	verif_err++;
	return &verif_err_obj;
}

void h_to_value(void)
{
	cJSON t; cJSON any; t = any;
	int ty = nondet_int();
	__CPROVER_assume(ty == cJSON_Number || ty == cJSON_String || ty == cJSON_True || ty == cJSON_False || ty == cJSON_NULL || ty == cJSON_Object || ty == cJSON_Array);
	t.type = ty;
	double v = t.valuedouble;
	__CPROVER_assume(v == v);   /* the JSON parser never produces NaN (digits, sign, exponent only); it can produce +-inf (1e999) */
	bool given = nondet_bool();
	uint64_t def = nondet_u64();
	cJSON *response = NULL;
	struct peer p; cJSON request;
	uint64_t r = get_timeout_in_nsec(&p, &request, given ? &t : NULL, &response, def);
	if (!given) {
		__CPROVER_assert(r == def && response == NULL && verif_err == 0, "C14.value.absent-timeout-gives-the-default");
	} else if (ty != cJSON_Number) {
		__CPROVER_assert(r == 0 && response == &verif_err_obj && verif_err == 1, "C14.value.non-numeric-timeout-refused");
	} else if (v < 0.001) {
		__CPROVER_assert(r == 0 && response == &verif_err_obj && verif_err == 1, "C14.value.timeout-below-one-millisecond-refused");
	} else if (response == NULL) {
		/* accepted: the deadline is the given value in nanoseconds (rounded down), never 0 */
		__CPROVER_assert(verif_err == 0 && r >= 1000000 && (double)r <= v * 1000000000.0 && (double)r > v * 1000000000.0 - 2048.0, "C14.value.accepted-timeout-is-the-given-value");
	} else {
		__CPROVER_assert(r == 0 && verif_err == 1 && v > 1000000.0, "C14.value.only-absurdly-large-timeouts-may-be-refused-as-well");
	}
	VERIF_COVER(given && ty == cJSON_Number && v == 0.001, "exactly one millisecond");
	VERIF_COVER(given && ty == cJSON_Number && v == 2.5 && r == 2500000000ull, "2.5 s");
	VERIF_COVER(given && ty == cJSON_Number && v < 0.001 && v > 0, "too small");
	VERIF_COVER(given && ty == cJSON_String, "string");
}
