#!/usr/bin/env python3
"""Native replay of a CBMC counterexample against the real code.

usage: run_replay.py <unit> <replay.json>
Builds the unit's replayer (a C program that #includes / links the real sources from $VERIF_REPO,
gcc -fsanitize=address,undefined) in a scratch dir, feeds it the values CBMC's trace assigned, and
prints REPRODUCED (with the concrete failing input) or NOT-REPRODUCED.
"""
import json
import os
import re
import shutil
import subprocess
import sys
import tempfile

VERIF = os.path.dirname(os.path.dirname(os.path.abspath(__file__)))
REPO = os.environ.get("VERIF_REPO", "/repo")
sys.path.insert(0, VERIF)
sys.path.insert(0, os.path.join(VERIF, "vc"))


def trace_values(trace, names):
    """all values the trace assigned to variables whose (base) name is in names, in order"""
    out = []
    for line in trace:
        m = re.match(r"^\S+\s+([A-Za-z_][\w$.!@#\[\]]*) = (.*)$", line)
        if not m:
            continue
        lhs, val = m.group(1), m.group(2)
        base = re.sub(r"[!@#].*$", "", lhs)
        if base in names:
            out.append((base, val))
    return out


def to_int(v):
    v = v.strip()
    m = re.match(r"^(-?\d+)(u|ul|l|ull|ll)?\b", v)
    if m:
        return int(m.group(1))
    if v in ("TRUE", "true"):
        return 1
    if v in ("FALSE", "false"):
        return 0
    return None


def main():
    import registry
    import driver
    unit_name, path = sys.argv[1], sys.argv[2]
    unit = [u for u in registry.UNITS if u["name"] == unit_name][0]
    spec = unit["replay"]
    with open(path) as f:
        rec = json.load(f)
    tmp = tempfile.mkdtemp(prefix="cjet-replay-")
    try:
        driver.gen_cfg(tmp, registry.CFGS[unit.get("cfg", "prod")])
        exe = os.path.join(tmp, "replay.bin")
        import glob
        srcs = [os.path.join(VERIF, spec["c"])]
        for s_ in spec.get("link", []):
            srcs += sorted(glob.glob(os.path.join(REPO, s_)))
        cmd = ["gcc", "-std=gnu99", "-g", "-O1", "-fsanitize=address,undefined", "-fno-sanitize-recover=undefined",
               "-DVERIF_NATIVE", "-D_GNU_SOURCE", "-I", tmp, "-I", os.path.join(REPO, "src"), "-I", os.path.join(REPO, "src", "linux"),
               "-I", os.path.join(VERIF, "contracts"), "-I", os.path.join(VERIF, "stubs"), "-I", VERIF] + \
              ["-D" + d for d in unit.get("defines", [])] + srcs + ["-o", exe] + [x.replace("{REPO}", REPO) for x in spec.get("libs", [])]
        p = subprocess.run(cmd, stdout=subprocess.PIPE, stderr=subprocess.STDOUT)
        if p.returncode != 0:
            print("REPLAY-BUILD-FAILED\n" + p.stdout.decode("utf-8", "replace")[-3000:])
            return 2
        import importlib
        ext = importlib.import_module("replay." + spec["extract"])
        argsets = ext.extract(rec, trace_values, to_int)
        reproduced = False
        for args in argsets[:200]:
            p = subprocess.run([exe] + [str(a) for a in args], stdout=subprocess.PIPE, stderr=subprocess.STDOUT, timeout=120)
            out = p.stdout.decode("utf-8", "replace")
            san = ("AddressSanitizer" in out) or ("runtime error" in out)
            if "REPRODUCED" in out or san or p.returncode < 0:
                print("REPRODUCED args=%s rc=%s\n%s" % (args, p.returncode, out[-3000:]))
                reproduced = True
                break
        if not reproduced:
            print("NOT-REPRODUCED after %d candidate input(s) taken from the trace" % len(argsets))
        return 0
    finally:
        shutil.rmtree(tmp, ignore_errors=True)


if __name__ == "__main__":
    sys.exit(main())
