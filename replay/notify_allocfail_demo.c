/* Native demonstration against the real sources: a state change is announced to a fetching peer while ONE allocation made
 * while the notification is built fails (every allocation of the change request in turn).  A notification may be lost,
 * but what is sent must be complete (method = fetch id, params.path, params.event, params.value) and nothing may leak.
 * Exit 1 if an incomplete notification reaches the fetcher or the accounting does not return to its baseline.
 * Build: as replay/rt_reply_allocfail_demo.c (same source list, same harness, -Wl,--wrap=malloc -Wl,--wrap=calloc). */
#include "alloc_harness.h"

static const char add_request[] = "{\"id\":1,\"method\":\"add\",\"params\":{\"path\":\"demo/state\",\"value\":1}}";
static const char fetch_request[] = "{\"id\":2,\"method\":\"fetch\",\"params\":{\"id\":\"f1\",\"path\":{\"startsWith\":\"demo\"}}}";
static const char change_request[] = "{\"id\":3,\"method\":\"change\",\"params\":{\"path\":\"demo/state\",\"value\":5}}";
static struct test_peer owner, fetcher;

int main(void)
{
	init_parser();
	if (element_hashtable_create() != 0) return 2;
	if ((test_peer_init(&owner, "owner") != 0) || (test_peer_init(&fetcher, "fetcher") != 0)) return 2;
	feed(&owner, add_request);
	feed(&fetcher, fetch_request);
	const size_t baseline = cjet_get_alloc_size();
	for (long n = 0; n < 60; n++) {
		fetcher.messages = 0; fetcher.last[0] = '\0';
		arm(n);
		feed(&owner, change_request);
		disarm();
		if (fetcher.messages > 0) {
			cJSON *m = cJSON_Parse(fetcher.last);
			const cJSON *method = m ? cJSON_GetObjectItem(m, "method") : NULL;
			const cJSON *params = m ? cJSON_GetObjectItem(m, "params") : NULL;
			bool complete = method != NULL && params != NULL && cJSON_GetObjectItem(params, "path") != NULL &&
			                cJSON_GetObjectItem(params, "event") != NULL && cJSON_GetObjectItem(params, "value") != NULL;
			CHECK(complete, "fault #%ld: incomplete notification sent: %s", n, fetcher.last);
			cJSON_Delete(m);
		}
		CHECK(cjet_get_alloc_size() == baseline, "fault #%ld: accounting did not return to baseline (%zu != %zu)", n, cjet_get_alloc_size(), baseline);
		if (errors != 0) break;
	}
	test_peer_close(&fetcher);
	test_peer_close(&owner);
	element_hashtable_delete();
	if (errors != 0) { fprintf(stderr, "REPRODUCED: %d check(s) failed\n", errors); return 1; }
	printf("ok (%ld faults injected)\n", faults_injected);
	return 0;
}
