/* units ht.*: the hopscotch table of src/hashtable.h, instantiated by the real DECLARE_HASHTABLE_*
 * macro (see contracts/ht_contracts.h) for order HT_ORDER and key kind HT_KIND.
 * Contract enforcement by hand-instrumented harness: assume(PRE); snapshot; call; assert(POST). */
#include "common.h"
#include "ht_contracts.h"

/* HT_ONLY=n restricts a harness to its n-th postcondition (lets the driver solve them in parallel) */
#ifdef HT_ONLY
#define HT_ASSERT(n, cond, tag) do { if ((n) == HT_ONLY) __CPROVER_assert(cond, tag); } while (0)
#else
#define HT_ASSERT(n, cond, tag) __CPROVER_assert(cond, tag)
#endif

void h_ht_get(void)
{
	struct ht_table T, T0;
	ht_key_t key;
	ht_val_t out;
	__CPROVER_assume(HT_PRE(&T));
	T0 = T;
	int r = hashtable_get_VT(T.s, key, &out);
	HT_ASSERT(1, HT_GET_POST_RESULT(&T0, key, r), "C17.get.found-iff-present");
	HT_ASSERT(2, HT_GET_POST_VALUE(&T0, key, r, out), "C17.get.returns-stored-value");
	HT_ASSERT(3, ht_same(&T0, &T), "C17.get.table-unchanged");
	VERIF_COVER(r == HASHTABLE_SUCCESS, "found");
	VERIF_COVER(r == HASHTABLE_SUCCESS && T.s[HT_WRAP(HT_H(key) + HT_N / 2 - 1)].key == key && HT_H(key) == HT_N - 1, "found at the far end of the add range, wrapped around the table end");
	VERIF_COVER(r != HASHTABLE_SUCCESS && T.s[HT_H(key)].hop_info != 0, "not found although its home has entries");
}

void h_ht_remove(void)
{
	struct ht_table T, T0;
	ht_key_t key, k2;
	ht_val_t out;
	ht_val_t *outp = nondet_bool() ? &out : NULL;
	__CPROVER_assume(HT_PRE(&T));
	T0 = T;
	int r = hashtable_remove_VT(T.s, key, outp);
	HT_ASSERT(1, HT_REMOVE_POST_RESULT(&T0, key, r), "C17.remove.success-iff-was-present");
	HT_ASSERT(2, HT_REMOVE_POST_VALUE(&T0, key, r, outp), "C17.remove.returns-removed-value");
	HT_ASSERT(3, HT_REMOVE_POST_VIEW(&T0, &T, key, k2), "C17.remove.view-is-old-view-minus-key");
	HT_ASSERT(4, ht_inv(&T) && ht_values_ok(&T), "C17.remove.inv-preserved");
	HT_ASSERT(5, r == HASHTABLE_SUCCESS || ht_same(&T0, &T), "C17.remove.failure-changes-nothing");
	VERIF_COVER(r == HASHTABLE_SUCCESS && outp != NULL, "removed");
	VERIF_COVER(r == HASHTABLE_SUCCESS && outp == NULL, "removed, value not wanted");
	VERIF_COVER(r != HASHTABLE_SUCCESS, "not found");
	VERIF_COVER(r == HASHTABLE_SUCCESS && k2 != key && ht_lookup(&T, k2) != HT_NONE && HT_H(k2) == HT_H(key), "a colliding key survives");
}

void h_ht_put(void)
{
	struct ht_table T, T0;
	ht_key_t key, k2;
	ht_val_t v, prev;
	ht_val_t *prevp = nondet_bool() ? &prev : NULL;
	__CPROVER_assume(HT_PRE(&T));
	__CPROVER_assume(v.vals[0] != HT_NONE);
	T0 = T;
	int r = hashtable_put_VT(T.s, key, v, prevp);
	HT_ASSERT(1, HT_PUT_POST_RESULT(&T0, key, r), "C17.put.result");
	HT_ASSERT(2, HT_PUT_POST_NOT_REFUSED(&T0, key, r), "C17.put.refused-only-when-no-slot-in-reach");
	HT_ASSERT(3, HT_PUT_POST_VIEW(&T0, &T, key, v.vals[0], r, k2), "C17.put.view-is-old-view-plus-binding");
	HT_ASSERT(4, HT_PUT_POST_PREV(&T0, key, r, prevp), "C17.put.reports-previous-value");
	HT_ASSERT(5, ht_inv(&T) && ht_values_ok(&T), "C17.put.inv-preserved");
	VERIF_COVER(r == HASHTABLE_SUCCESS && ht_lookup(&T0, key) == HT_NONE, "inserted new key");
	VERIF_COVER(r == HASHTABLE_SUCCESS && ht_lookup(&T0, key) != HT_NONE, "overwrote existing key");
	VERIF_COVER(r == HASHTABLE_FULL, "refused: add range full");
	VERIF_COVER(r == HASHTABLE_KEYINVAL, "refused: reserved key");
	VERIF_COVER(r == HASHTABLE_SUCCESS && HT_H(key) == HT_N - 1 && T0.s[HT_N - 1].key != HT_INVALID, "insert probes across the table end");
}

/* hashtable_create: establishes Inv with an empty view (allocation may fail) */
void h_ht_create(void)
{
	ht_slot_t *t = hashtable_create_VT();
	if (t != NULL) {
		struct ht_table T;
		ht_key_t k2;
		memcpy(T.s, t, sizeof(T.s));
		HT_ASSERT(1, ht_inv(&T), "C17.create.inv-established");
		HT_ASSERT(2, ht_lookup(&T, k2) == HT_NONE, "C17.create.view-empty");
		hashtable_delete_VT(t);
	}
	VERIF_COVER(t != NULL, "created");
	VERIF_COVER(t == NULL, "allocation failed");
}

#if HT_ORDER >= 7
/* ---- displacement: find_closer_entry (reachable only for orders >= 7) -------------------------------------
 * Window-based contract.  find_closer_entry(table, f) only reads and writes the 32 slots f-31..f and the hop
 * bitmaps of the 31 homes before f.  "Inv with a hole at f" is therefore stated as
 *   (i)   the hole is unreferenced: for every home h in f-31..f the bit (f-h) of h is clear;
 *   (ii)  Inv-A for every bit of every home in f-62..f-1 (constant indices once f is fixed), Inv-C between the
 *         window slots and the ghost slots;
 *   (iii) Inv-A / Inv-B / Inv-C at GHOST indices (gh,gd), gp, gq chosen arbitrarily before the call,
 * and the postcondition re-establishes (i) for the new hole, and (iii) at the same arbitrary ghost indices
 * (universal generalisation), plus: the view is unchanged (the entry of ghost slot gp is still stored, with its
 * value, at gp or - if gp was the moved slot - at f), the hole moves 1..31 slots towards the home, and the function
 * gives up only if no entry in the window can move.  The free position f is a compile-time constant per unit:
 * the table is rotation-symmetric (all index arithmetic is modulo N, the hash is arbitrary), so one position
 * stands for all (assumption); f = 5 makes the window wrap around the table end. */
#ifndef HT_F
#define HT_F 5
#endif
#define SLOT(t, x) ((t)->s[HT_WRAP(x)])
static inline _Bool live_h(const struct ht_table *t, uint32_t p, uint32_t hole) { return p != hole && t->s[p].key != HT_INVALID; }
/* home[p] = HT_H(key of slot p), computed once per slot by ht_homes() for the PRE state: one application of the
 * uninterpreted hash per slot instead of one per Inv instance (the solver compares every pair of applications);
 * home == NULL: apply the hash directly (POST state: only the ghost instances are evaluated) */
#ifdef HT_STUB_CLOSER
/* units ht.putd: the hash restricted to the keys that occur is a TABLE: verif_home0[p] (arbitrary) for the key of slot p
 * of the pre-state, HT_PIN_HOME for the inserted key, arbitrary for any other key; "equal keys have equal homes" is
 * assumed for all pairs of slots.  Every function Keys -> [0,N) restricts to such a table, so this over-approximates
 * the uninterpreted hash (whose pairwise-consistency encoding was the bulk of the formula). */
static uint32_t verif_home0[HT_N]; static ht_key_t verif_key; static struct ht_table verif_T0;
static inline uint32_t home_of(ht_key_t k)
{
	if (k == verif_key) return HT_PIN_HOME;
	for (uint32_t p = 0; p < HT_N; p++) if (verif_T0.s[p].key == k) return verif_home0[p];
	return nondet_u32() & (HT_N - 1);
}
#define HT_HOME_DIRECT(k) home_of(k)
#else
#define HT_HOME_DIRECT(k) HT_H(k)
#endif
static inline void ht_homes(const struct ht_table *t, uint32_t *home) { for (uint32_t p = 0; p < HT_N; p++) home[p] = HT_H(t->s[p].key); }
static inline _Bool wa(const struct ht_table *t, const uint32_t *home, uint32_t h, uint32_t d, uint32_t hole)   /* Inv-A at (h,d) with a hole */
{
	if (!((t->s[h].hop_info >> d) & 1u)) return 1;
	uint32_t s = HT_WRAP(h + d);
	return live_h(t, s, hole) && (home != NULL ? home[s] : HT_HOME_DIRECT(t->s[s].key)) == h;
}
static inline _Bool wb(const struct ht_table *t, const uint32_t *home, uint32_t p, uint32_t hole)               /* Inv-B at p with a hole */
{
	if (!live_h(t, p, hole)) return 1;
	uint32_t h = home != NULL ? home[p] : HT_HOME_DIRECT(t->s[p].key), d = HT_WRAP(p - h);
	return d < 32 && ((t->s[h].hop_info >> d) & 1u);
}
static inline _Bool wc(const struct ht_table *t, uint32_t p, uint32_t q, uint32_t hole)  /* Inv-C at (p,q) with a hole */
{
	return p == q || !live_h(t, p, hole) || !live_h(t, q, hole) || t->s[p].key != t->s[q].key;
}
static inline _Bool hole_unreferenced(const struct ht_table *t, uint32_t f)
{
	for (uint32_t d = 0; d < 32; d++) if ((SLOT(t, f - d).hop_info >> d) & 1u) return 0;
	return 1;
}
static inline _Bool window_a(const struct ht_table *t, const uint32_t *home, uint32_t f)
{
	/* homes f-62..f-1: every home that can reference a slot of f-31..f */
	for (uint32_t b = 1; b < 63; b++) for (uint32_t d = 0; d < 32; d++) if (!wa(t, home, HT_WRAP(f - b), d, f)) return 0;
	return 1;
}
static inline _Bool window_c(const struct ht_table *t, uint32_t f, uint32_t g)
{
	/* no slot of the window holds the key of ghost slot g */
	for (uint32_t b = 1; b < 32; b++) if (!wc(t, HT_WRAP(f - b), g, f) || !wc(t, g, HT_WRAP(f - b), f)) return 0;
	return 1;
}
static inline _Bool movable_exists(const struct ht_table *t, uint32_t f)
{
	/* some home x = f-d (1 <= d <= 31) has one of its bits 0..d-1 set; written over constant slot indices x */
	for (uint32_t x = 0; x < HT_N; x++) { uint32_t d = HT_WRAP(f - x); if (d >= 1 && d < 32 && (t->s[x].hop_info & ((UINT32_C(1) << d) - 1)) != 0) return 1; }
	return 0;
}
#ifndef HT_STUB_CLOSER
/* exact functional effect of find_closer_entry, for EVERY table content (no precondition): either nothing can move
 * and nothing changes, or for some home cp = f-d (1 <= d <= 31) and some bit i < d of its bitmap the entry of slot
 * r = cp+i is copied into slot f, bit i of cp is replaced by bit d, r is returned and nothing else changes.  This is
 * the contract the stub in the ht.putd units replaces the call with. */
void h_ht_closer_fx(void)
{
	struct ht_table T, T0;
	const uint32_t f = HT_F;
	uint32_t g = nondet_u32();
	__CPROVER_assume(g < HT_N);
	T0 = T;
	uint32_t r = find_closer_entry_VT(T.s, f);
	if (r == 0xffffffff) {
		HT_ASSERT(1, ht_same(&T0, &T), "C17.closer.fx.no-candidate-changes-nothing");
		HT_ASSERT(2, !movable_exists(&T0, f), "C17.closer.fx.gives-up-only-when-no-entry-can-move");
	} else {
		uint32_t d = 0, i = 0; _Bool found = 0;
		for (uint32_t dd = 1; dd < 32; dd++) if (T.s[HT_WRAP(f - dd)].hop_info != T0.s[HT_WRAP(f - dd)].hop_info) { d = dd; found = 1; }
		uint32_t cp = HT_WRAP(f - d);
		HT_ASSERT(3, found && r < HT_N && HT_WRAP(r - cp) < d, "C17.closer.fx.moved-entry-lies-between-its-home-and-the-hole");
		i = HT_WRAP(r - cp) & 31u;
		HT_ASSERT(4, ((T0.s[cp].hop_info >> i) & 1u) && T.s[cp].hop_info == ((T0.s[cp].hop_info & ~(UINT32_C(1) << i)) | (UINT32_C(1) << d)), "C17.closer.fx.bitmap-bit-moves-with-the-entry");
		HT_ASSERT(5, r < HT_N && T.s[f].key == T0.s[r].key && T.s[f].value.vals[0] == T0.s[r].value.vals[0], "C17.closer.fx.hole-receives-the-entry");
		HT_ASSERT(6, (g == f || (T.s[g].key == T0.s[g].key && T.s[g].value.vals[0] == T0.s[g].value.vals[0])) && (g == cp || T.s[g].hop_info == T0.s[g].hop_info), "C17.closer.fx.nothing-else-changes");
	}
	VERIF_COVER(r != 0xffffffff && HT_WRAP(f - r) == 31, "entry moved by 31 slots");
	VERIF_COVER(r == 0xffffffff, "no candidate");
}

/* h_ht_closer uses the direct-hash formulation of the Inv instances (one application of the uninterpreted hash per
 * instance): for this harness it is measured smaller and faster than the per-slot home table the put units need */
static inline _Bool wa0(const struct ht_table *t, uint32_t h, uint32_t d, uint32_t hole)   /* Inv-A at (h,d) with a hole */
{
	if (!((t->s[h].hop_info >> d) & 1u)) return 1;
	uint32_t s = HT_WRAP(h + d);
	return live_h(t, s, hole) && HT_H(t->s[s].key) == h;
}
static inline _Bool wb0(const struct ht_table *t, uint32_t p, uint32_t hole)               /* Inv-B at p with a hole */
{
	if (!live_h(t, p, hole)) return 1;
	uint32_t h = HT_H(t->s[p].key), d = HT_WRAP(p - h);
	return d < 32 && ((t->s[h].hop_info >> d) & 1u);
}
static inline _Bool window_a0(const struct ht_table *t, uint32_t f)
{
	/* homes f-62..f-1: every home that can reference a slot of f-31..f */
	for (uint32_t b = 1; b < 63; b++) for (uint32_t d = 0; d < 32; d++) if (!wa0(t, HT_WRAP(f - b), d, f)) return 0;
	return 1;
}
static inline _Bool movable_exists0(const struct ht_table *t, uint32_t f)
{
	for (uint32_t d = 1; d < 32; d++) { uint32_t hop = SLOT(t, f - d).hop_info; for (uint32_t i = 0; i < d; i++) if ((hop >> i) & 1u) return 1; }
	return 0;
}
void h_ht_closer(void)
{
	struct ht_table T, T0;
	const uint32_t f = HT_F;
	uint32_t gh = nondet_u32(), gd = nondet_u32(), gp = nondet_u32(), gq = nondet_u32();
	__CPROVER_assume(gh < HT_N && gd < 32 && gp < HT_N && gq < HT_N);
#ifdef HT_WINDOW_WIDE
	/* obligations 4 and 7 need the wider set of Inv instances: A for the homes f-62..f-1, C between the window and the ghosts */
	__CPROVER_assume(hole_unreferenced(&T, f) && window_a0(&T, f));
	__CPROVER_assume(window_c(&T, f, gp) && window_c(&T, f, gq));
#else
	/* the other obligations are discharged from fewer instances (a weaker precondition, hence a stronger statement): A for the
	 * homes f-31..f-1 only - half the applications of the uninterpreted hash, a quarter of the formula */
	__CPROVER_assume(hole_unreferenced(&T, f));
	for (uint32_t b = 1; b < 32; b++) for (uint32_t d = 0; d < 32; d++) __CPROVER_assume(wa0(&T, HT_WRAP(f - b), d, f));
#endif
	__CPROVER_assume(wa0(&T, gh, gd, f) && wb0(&T, gp, f) && wb0(&T, gq, f) && wc(&T, gp, gq, f) && wc(&T, gq, gp, f));
	T0 = T;
	uint32_t r = find_closer_entry_VT(T.s, f);
	if (r == 0xffffffff) {
		HT_ASSERT(1, T.s[gp].key == T0.s[gp].key && T.s[gp].value.vals[0] == T0.s[gp].value.vals[0] && T.s[gp].hop_info == T0.s[gp].hop_info, "C17.closer.no-candidate-changes-nothing");
		HT_ASSERT(2, !movable_exists0(&T0, f), "C17.closer.gives-up-only-when-no-entry-can-move");
	} else {
		HT_ASSERT(3, r < HT_N && HT_WRAP(f - r) >= 1 && HT_WRAP(f - r) <= 31, "C17.closer.hole-moves-closer-to-the-home");
		if (r < HT_N) {
			HT_ASSERT(4, hole_unreferenced(&T, r), "C17.closer.new-hole-is-unreferenced");
			HT_ASSERT(5, wa0(&T, gh, gd, r), "C17.closer.inv-A-preserved-at-an-arbitrary-bit");
			HT_ASSERT(6, wb0(&T, gp, r), "C17.closer.inv-B-preserved-at-an-arbitrary-slot");
			HT_ASSERT(7, wc(&T, gp, gq, r), "C17.closer.inv-C-preserved-at-an-arbitrary-pair");
			/* view: the entry that lived in ghost slot gp is still stored with its value - in gp, or in f if gp was moved */
			if (live_h(&T0, gp, f)) {
				uint32_t now = (gp == r) ? f : gp;
				HT_ASSERT(8, live_h(&T, now, r) && T.s[now].key == T0.s[gp].key && T.s[now].value.vals[0] == T0.s[gp].value.vals[0], "C17.closer.every-entry-keeps-its-key-and-value");
			}
			/* nothing appears: a slot that is live afterwards held the same key before (or is f and holds the moved key) */
			if (live_h(&T, gp, r) && gp != f) HT_ASSERT(9, live_h(&T0, gp, f) && T.s[gp].key == T0.s[gp].key, "C17.closer.no-entry-appears");
		}
	}
	VERIF_COVER(r != 0xffffffff && HT_WRAP(f - r) == 31, "entry moved by 31 slots");
	VERIF_COVER(r != 0xffffffff && HT_WRAP(f - r) == 1, "entry moved by one slot");
	VERIF_COVER(r != 0xffffffff && r > f, "moved across the table end");
	VERIF_COVER(r == 0xffffffff, "no candidate");
}
#endif /* !HT_STUB_CLOSER */

#ifdef HT_STUB_CLOSER
/* ---- hashtable_put with displacement (units ht.putd.*) ------------------------------------------------------
 * The call of find_closer_entry inside the real put is replaced by its functional contract (proved by ht.closer.fx
 * for every table content): any movable candidate may be chosen.  The home c of the inserted key is a compile-time
 * constant (rotation symmetry, see above); c = 100 makes the add range c..c+63 wrap around the table end.
 * Inv is assumed for every bit of every home (A), for the 64 slots of the add range and two ghost slots (B), and for
 * all pairs among those (C); it is re-established at ARBITRARY ghost indices chosen before the call.  The stub
 * tracks where the entry of ghost slot gp lives (verif_loc) and where the content of ghost slot gq came from
 * (verif_org).  Bounded: at most HT_MAXMOVES displacement steps per insertion (paths with more are cut). */
#define HT_C HT_PIN_HOME
#ifndef HT_MAXMOVES
#define HT_MAXMOVES 2
#endif
static uint32_t verif_gp, verif_gq, verif_loc, verif_org;
static unsigned verif_moves; static _Bool verif_stuck;
static inline uint32_t verif_stub_find_closer_entry(ht_slot_t *table, uint32_t f)
{
	const struct ht_table *T = (const struct ht_table *)table;
	__CPROVER_assert(f < HT_N, "C17.putd.closer-is-called-with-a-slot-index");
	/* put asks for a displacement only while the hole is out of reach of the home (distance modulo N >= hop range): a hole
	 * within reach must be used, not moved on (and never lead to a refusal) */
	__CPROVER_assert(HT_WRAP(f - HT_PIN_HOME) >= 32, "C17.putd.displacement-continues-only-while-the-hole-is-out-of-reach");
	if (!movable_exists(T, f)) { verif_stuck = 1; return 0xffffffff; }
	__CPROVER_assume(verif_moves < HT_MAXMOVES);
	verif_moves++;
	uint32_t d = nondet_u32(), i = nondet_u32();
	__CPROVER_assume(d >= 1 && d < 32 && i < d);
	uint32_t cp = HT_WRAP(f - d), r = HT_WRAP(cp + i);
	__CPROVER_assume((table[cp].hop_info >> i) & 1u);
	table[f].key = table[r].key;
	table[f].value = table[r].value;
	table[cp].hop_info = (table[cp].hop_info & ~(UINT32_C(1) << i)) | (UINT32_C(1) << d);
	if (verif_loc == r) verif_loc = f;
	if (verif_gq == f) verif_org = r;
	return r;
}
#define NOHOLE HT_N
void h_ht_putd(void)
{
	struct ht_table T, T0;
	const uint32_t c = HT_C;
	ht_key_t key;
	ht_val_t v, prev;
	ht_val_t *prevp = nondet_bool() ? &prev : NULL;
	uint32_t gh = nondet_u32(), gd = nondet_u32(), gp = nondet_u32(), gq = nondet_u32();
	__CPROVER_assume(gh < HT_N && gd < 32 && gp < HT_N && gq < HT_N);
	__CPROVER_assume(key != HT_INVALID);
	/* the hash as a table (see home_of) */
	uint32_t *const home0 = verif_home0;
	for (uint32_t p = 0; p < HT_N; p++) { home0[p] = nondet_u32() & (HT_N - 1); __CPROVER_assume(T.s[p].key != key || home0[p] == c); }
	for (uint32_t p = 0; p < HT_N; p++) for (uint32_t q = p + 1; q < HT_N; q++) __CPROVER_assume(T.s[p].key != T.s[q].key || home0[p] == home0[q]);
	/* Inv (instances) */
	for (uint32_t h = 0; h < HT_N; h++) for (uint32_t d = 0; d < 32; d++) __CPROVER_assume(wa(&T, home0, h, d, NOHOLE));
	for (uint32_t b = 0; b < 64; b++) __CPROVER_assume(wb(&T, home0, HT_WRAP(c + b), NOHOLE));
	__CPROVER_assume(wb(&T, home0, gp, NOHOLE) && wb(&T, home0, gq, NOHOLE) && wc(&T, gp, gq, NOHOLE));
	const ht_key_t kp = T.s[gp].key, kq = T.s[gq].key;   /* ghost slots read once */
	for (uint32_t a = 0; a < 64; a++) {
		uint32_t sa = HT_WRAP(c + a);
		__CPROVER_assume(T.s[sa].key == HT_INVALID || ((sa == gp || T.s[sa].key != kp) && (sa == gq || T.s[sa].key != kq)));
		for (uint32_t b = a + 1; b < 64; b++) __CPROVER_assume(wc(&T, sa, HT_WRAP(c + b), NOHOLE));
	}
	T0 = T; verif_T0 = T; verif_key = key;
	verif_gp = gp; verif_gq = gq; verif_loc = gp; verif_org = gq; verif_moves = 0; verif_stuck = 0;
	_Bool was_present = 0, range_full = 1; void *oldval = NULL;
	for (uint32_t b = 0; b < 32; b++) if (((T0.s[c].hop_info >> b) & 1u) && T0.s[HT_WRAP(c + b)].key == key) { was_present = 1; oldval = T0.s[HT_WRAP(c + b)].value.vals[0]; }
	for (uint32_t b = 0; b < 64; b++) if (T0.s[HT_WRAP(c + b)].key == HT_INVALID) range_full = 0;

	verif_pin_key = (uint64_t)key; verif_pin = 1;
	int r = hashtable_put_VT(T.s, key, v, prevp);
	verif_pin = 0;

	HT_ASSERT(1, r == HASHTABLE_SUCCESS || (r == HASHTABLE_FULL && !was_present && (range_full || verif_stuck)), "C17.putd.refused-only-when-no-slot-in-reach-can-be-freed");
	_Bool bound = 0;
	for (uint32_t b = 0; b < 32; b++) if (((T.s[c].hop_info >> b) & 1u) && T.s[HT_WRAP(c + b)].key == key && T.s[HT_WRAP(c + b)].value.vals[0] == v.vals[0]) bound = 1;
	HT_ASSERT(2, r != HASHTABLE_SUCCESS || bound, "C17.putd.new-binding-is-reachable-from-its-home");
	HT_ASSERT(3, wa(&T, NULL, gh, gd, NOHOLE), "C17.putd.inv-A-at-an-arbitrary-bit");
	HT_ASSERT(4, wb(&T, NULL, gp, NOHOLE), "C17.putd.inv-B-at-an-arbitrary-slot");
	HT_ASSERT(5, wc(&T, gp, gq, NOHOLE), "C17.putd.inv-C-at-an-arbitrary-pair");
	if (T0.s[gp].key != HT_INVALID) {
		uint32_t now = verif_loc;
		HT_ASSERT(6, now < HT_N && T.s[now].key == T0.s[gp].key && (T.s[now].value.vals[0] == T0.s[gp].value.vals[0] || (r == HASHTABLE_SUCCESS && T0.s[gp].key == key && T.s[now].value.vals[0] == v.vals[0])), "C17.putd.every-other-binding-survives-with-its-value");
	}
	if (T.s[gq].key != HT_INVALID) {
		uint32_t o = verif_org;
		HT_ASSERT(7, (r == HASHTABLE_SUCCESS && T.s[gq].key == key && T.s[gq].value.vals[0] == v.vals[0]) ||
			(o < HT_N && T0.s[o].key == T.s[gq].key && T0.s[o].value.vals[0] == T.s[gq].value.vals[0]), "C17.putd.no-binding-appears");
	}
	HT_ASSERT(8, prevp == NULL || prev.vals[0] == ((r == HASHTABLE_SUCCESS && was_present) ? oldval : NULL), "C17.putd.reports-previous-value");
	VERIF_COVER(r == HASHTABLE_SUCCESS && verif_moves == 1, "inserted after one displacement");
	VERIF_COVER(r == HASHTABLE_SUCCESS && verif_moves == HT_MAXMOVES, "inserted after the maximal number of displacements");
	VERIF_COVER(r == HASHTABLE_FULL && verif_moves >= 1, "gave up after a displacement");
	VERIF_COVER(r == HASHTABLE_FULL && verif_moves == 0 && !range_full, "gave up at once: nothing can move");
	VERIF_COVER(r == HASHTABLE_SUCCESS && was_present, "overwrote existing key");
	VERIF_COVER(r == HASHTABLE_SUCCESS && verif_moves == 0 && !was_present, "inserted without displacement");
}
#endif
#endif /* HT_ORDER >= 7 */
