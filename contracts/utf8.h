/* Contracts for src/utf8_checker.c  (property C18).
 *
 * Reference: the RFC 3629 section 4 grammar as a deterministic automaton, written from the
 * RFC table, not from the code:
 *   UTF8-1 = 00-7F
 *   UTF8-2 = C2-DF tail
 *   UTF8-3 = E0 A0-BF tail / E1-EC 2(tail) / ED 80-9F tail / EE-EF 2(tail)
 *   UTF8-4 = F0 90-BF 2(tail) / F1-F3 3(tail) / F4 80-8F 2(tail)
 *   tail   = 80-BF
 */
#ifndef VERIF_CONTRACTS_UTF8_H
#define VERIF_CONTRACTS_UTF8_H

#include <stdbool.h>
#include <stddef.h>
#include <stdint.h>
#include "utf8_checker.h"

enum {
	U8_ACC = 0, /* between code points: the text so far is well-formed */
	U8_T1 = 1,  /* one tail byte pending */
	U8_T2 = 2,  /* two tail bytes pending */
	U8_T3 = 3,  /* three tail bytes pending */
	U8_E0 = 4,  /* after E0: next A0-BF, then one tail */
	U8_ED = 5,  /* after ED: next 80-9F, then one tail */
	U8_F0 = 6,  /* after F0: next 90-BF, then two tails */
	U8_F4 = 7,  /* after F4: next 80-8F, then two tails */
	U8_REJ = 8  /* ill-formed (absorbing) */
};

/* one step of the reference automaton */
static inline uint8_t u8_step(uint8_t s, uint8_t b)
{
	switch (s) {
	case U8_ACC:
		if (b <= 0x7F) return U8_ACC;
		if (b >= 0xC2 && b <= 0xDF) return U8_T1;
		if (b == 0xE0) return U8_E0;
		if (b >= 0xE1 && b <= 0xEC) return U8_T2;
		if (b == 0xED) return U8_ED;
		if (b == 0xEE || b == 0xEF) return U8_T2;
		if (b == 0xF0) return U8_F0;
		if (b >= 0xF1 && b <= 0xF3) return U8_T3;
		if (b == 0xF4) return U8_F4;
		return U8_REJ;
	case U8_T1: return (b >= 0x80 && b <= 0xBF) ? U8_ACC : U8_REJ;
	case U8_T2: return (b >= 0x80 && b <= 0xBF) ? U8_T1 : U8_REJ;
	case U8_T3: return (b >= 0x80 && b <= 0xBF) ? U8_T2 : U8_REJ;
	case U8_E0: return (b >= 0xA0 && b <= 0xBF) ? U8_T1 : U8_REJ;
	case U8_ED: return (b >= 0x80 && b <= 0x9F) ? U8_T1 : U8_REJ;
	case U8_F0: return (b >= 0x90 && b <= 0xBF) ? U8_T2 : U8_REJ;
	case U8_F4: return (b >= 0x80 && b <= 0x8F) ? U8_T2 : U8_REJ;
	default: return U8_REJ;
	}
}

/* Representation invariant and abstraction of struct cjet_utf8_checker, as call-free
 * expressions (loop invariants must be side-effect free, so these are macros). */
#define U8_INIT(c) ((c).start_byte == 0xFF && (c).length == 1 && (c).next_byte == 1)
#define U8_LEN_OF(sb) (((sb) >= 0xC2 && (sb) <= 0xDF) ? 2 : ((sb) >= 0xE0 && (sb) <= 0xEF) ? 3 : ((sb) >= 0xF0 && (sb) <= 0xF4) ? 4 : 0)
#define U8_REP_OK(c) ( \
	((c).next_byte == 1 && (c).start_byte == 0xFF && (c).length == 1) || \
	((c).next_byte == 2 && U8_LEN_OF((c).start_byte) != 0 && (c).length == U8_LEN_OF((c).start_byte)) || \
	((c).next_byte == 3 && U8_LEN_OF((c).start_byte) >= 3 && (c).length == U8_LEN_OF((c).start_byte)) || \
	((c).next_byte == 4 && U8_LEN_OF((c).start_byte) == 4 && (c).length == 4))
/* abstract state of a rep-ok checker */
#define U8_ABS(c) ( \
	(c).next_byte == 1 ? U8_ACC : \
	(c).next_byte == 2 ? ( \
		(c).length == 2 ? U8_T1 : \
		(c).start_byte == 0xE0 ? U8_E0 : \
		(c).start_byte == 0xED ? U8_ED : \
		(c).length == 3 ? U8_T2 : \
		(c).start_byte == 0xF0 ? U8_F0 : \
		(c).start_byte == 0xF4 ? U8_F4 : U8_T3) : \
	(c).next_byte == 3 ? ((c).length == 3 ? U8_T1 : U8_T2) : \
	U8_T1)
static inline uint8_t u8_abs(struct cjet_utf8_checker c) { return U8_ABS(c); }
/* checker c simulates ghost automaton state g; a rejected ghost corresponds to a reset checker */
#define U8_SIM(c, g) (U8_REP_OK(c) && ((g) == U8_REJ ? U8_INIT(c) : U8_ABS(c) == (g)))

/* ghost state advanced by the VERIF_GHOST statements in the loops of utf8_checker.c */
extern uint8_t verif_u8_g;   /* reference automaton state */
extern const uint8_t *verif_u8_base; /* start of the whole text; set once by the harness, never assigned afterwards */
extern size_t verif_u8_n;            /* number of bytes of the text the ghost has consumed: it reads verif_u8_base[verif_u8_n] next */
/* pointer p is exactly where the ghost reads next (stated with object/offset, not pointer equality:
 * cbmc 6.11's contract instrumentation treats `==` on pointers in contracts as a pointer predicate) */
#define U8_AT(p) (__CPROVER_same_object((const uint8_t *)(p), verif_u8_base) && \
	__CPROVER_POINTER_OFFSET((const uint8_t *)(p)) == __CPROVER_POINTER_OFFSET(verif_u8_base) + verif_u8_n)

/* loop contracts and ghost steps used by the VERIF_LOOP / VERIF_GHOST hooks in utf8_checker.c */
#define VERIF_U8_LOOP(c, i, length, ret, bytes_per_item) \
	__CPROVER_assigns(i, ret, *(c), verif_u8_g, verif_u8_n) \
	__CPROVER_loop_invariant((i) <= (length) && (ret) == true && U8_REP_OK(*(c)) && \
		(__CPROVER_loop_entry(verif_u8_g) == U8_REJ ? verif_u8_g == U8_REJ : (verif_u8_g != U8_REJ && U8_ABS(*(c)) == verif_u8_g && \
		verif_u8_n == __CPROVER_loop_entry(verif_u8_n) + (i) * (bytes_per_item)))) \
	__CPROVER_decreases((length) - (i))
#define VERIF_U8_WORD_LOOP(c, i, length, ret, tmp, bytes_per_item) \
	__CPROVER_assigns(i, ret, tmp, *(c), verif_u8_g, verif_u8_n) \
	__CPROVER_loop_invariant((i) <= (length) && (ret) == true && U8_REP_OK(*(c)) && \
		(__CPROVER_loop_entry(verif_u8_g) == U8_REJ ? verif_u8_g == U8_REJ : (verif_u8_g != U8_REJ && U8_ABS(*(c)) == verif_u8_g && \
		verif_u8_n == __CPROVER_loop_entry(verif_u8_n) + (i) * (bytes_per_item)))) \
	__CPROVER_decreases((length) - (i))
/* the ghost consumes one byte / the bytes of one loop item in memory order, through its own base pointer and index */
#define VERIF_U8_GHOST_BYTE() (verif_u8_g == U8_REJ ? 0 : (verif_u8_g = u8_step(verif_u8_g, verif_u8_base[verif_u8_n]), verif_u8_n++, 0))
#define VERIF_U8_GHOST_ITEM(nbytes) ( \
	(void)((nbytes) > 0 ? VERIF_U8_GHOST_BYTE() : 0), (void)((nbytes) > 1 ? VERIF_U8_GHOST_BYTE() : 0), \
	(void)((nbytes) > 2 ? VERIF_U8_GHOST_BYTE() : 0), (void)((nbytes) > 3 ? VERIF_U8_GHOST_BYTE() : 0), \
	(void)((nbytes) > 4 ? VERIF_U8_GHOST_BYTE() : 0), (void)((nbytes) > 5 ? VERIF_U8_GHOST_BYTE() : 0), \
	(void)((nbytes) > 6 ? VERIF_U8_GHOST_BYTE() : 0), (void)((nbytes) > 7 ? VERIF_U8_GHOST_BYTE() : 0))

/* the verdict the property statement demands for a call that has consumed the whole input */
#define U8_VERDICT(g, complete) ((g) != U8_REJ && (!(complete) || (g) == U8_ACC))

#ifndef VERIF_NATIVE
/* ---- is_byte_valid: one step ------------------------------------------------------------ */
static bool is_byte_valid(struct cjet_utf8_checker *c, uint8_t byte)
__CPROVER_requires(__CPROVER_is_fresh(c, sizeof(*c)))
__CPROVER_requires(U8_REP_OK(*c))
__CPROVER_assigns(*c)
__CPROVER_ensures(__CPROVER_return_value == (u8_step(u8_abs(__CPROVER_old(*c)), byte) != U8_REJ)) /* @ob C18.step.verdict */
__CPROVER_ensures(U8_SIM(*c, u8_step(u8_abs(__CPROVER_old(*c)), byte))) /* @ob C18.step.state-simulates */
;

/* ---- sequence entry points ------------------------------------------------------------- */
/* pre:  checker simulates the ghost (a ghost that has already rejected stays rejected: the real code
 *       goes on validating after a `false`, callers combine the verdicts with &=)
 * post: either the ghost rejected (then the verdict is false and the checker is reset), or the
 *       ghost has consumed exactly the input bytes in order; the verdict equals the reference
 *       verdict; the checker simulates the ghost unless the call ended a complete text.      */
bool cjet_is_byte_sequence_valid(struct cjet_utf8_checker *c, const uint8_t *sequence, size_t length, bool is_complete)
__CPROVER_requires(__CPROVER_is_fresh(c, sizeof(*c)))
__CPROVER_requires(length <= 1000000 && __CPROVER_r_ok(sequence, length))
__CPROVER_requires(U8_REP_OK(*c) && (verif_u8_g == U8_REJ || (U8_ABS(*c) == verif_u8_g && U8_AT(sequence) && verif_u8_n <= 4000000)))
__CPROVER_assigns(*c, verif_u8_g, verif_u8_n)
__CPROVER_ensures(verif_u8_g == U8_REJ || verif_u8_n == __CPROVER_old(verif_u8_n) + (length)) /* @ob C18.bytes.consumed-all */
__CPROVER_ensures(__CPROVER_old(verif_u8_g) == U8_REJ ? verif_u8_g == U8_REJ : __CPROVER_return_value == U8_VERDICT(verif_u8_g, is_complete)) /* @ob C18.bytes.verdict */
__CPROVER_ensures((__CPROVER_return_value && __CPROVER_old(verif_u8_g) != U8_REJ) ? U8_SIM(*c, verif_u8_g) : (U8_REP_OK(*c))) /* @ob C18.bytes.state-simulates */
__CPROVER_ensures((verif_u8_g == U8_REJ && __CPROVER_old(verif_u8_g) != U8_REJ) ==> U8_INIT(*c)) /* @ob C18.bytes.reset-on-reject */
;

bool cjet_is_text_valid(struct cjet_utf8_checker *c, const char *text, size_t length, bool is_complete)
__CPROVER_requires(__CPROVER_is_fresh(c, sizeof(*c)))
__CPROVER_requires(length <= 1000000 && __CPROVER_r_ok(text, length))
__CPROVER_requires(U8_REP_OK(*c) && (verif_u8_g == U8_REJ || (U8_ABS(*c) == verif_u8_g && U8_AT(text) && verif_u8_n <= 4000000)))
__CPROVER_assigns(*c, verif_u8_g, verif_u8_n)
__CPROVER_ensures(verif_u8_g == U8_REJ || verif_u8_n == __CPROVER_old(verif_u8_n) + (length)) /* @ob C18.text.consumed-all */
__CPROVER_ensures(__CPROVER_old(verif_u8_g) == U8_REJ ? verif_u8_g == U8_REJ : __CPROVER_return_value == U8_VERDICT(verif_u8_g, is_complete)) /* @ob C18.text.verdict */
__CPROVER_ensures((__CPROVER_return_value && __CPROVER_old(verif_u8_g) != U8_REJ) ? U8_SIM(*c, verif_u8_g) : (U8_REP_OK(*c))) /* @ob C18.text.state-simulates */
__CPROVER_ensures((verif_u8_g == U8_REJ && __CPROVER_old(verif_u8_g) != U8_REJ) ==> U8_INIT(*c)) /* @ob C18.text.reset-on-reject */
;

bool cjet_is_word_sequence_valid(struct cjet_utf8_checker *c, const uint32_t *sequence, size_t length, bool is_complete)
__CPROVER_requires(__CPROVER_is_fresh(c, sizeof(*c)))
__CPROVER_requires(length <= 250000 && __CPROVER_r_ok(sequence, length * 4))
__CPROVER_requires(U8_REP_OK(*c) && (verif_u8_g == U8_REJ || (U8_ABS(*c) == verif_u8_g && U8_AT(sequence) && verif_u8_n <= 4000000)))
__CPROVER_assigns(*c, verif_u8_g, verif_u8_n)
__CPROVER_ensures(verif_u8_g == U8_REJ || verif_u8_n == __CPROVER_old(verif_u8_n) + (length * 4)) /* @ob C18.word32.consumed-all */
__CPROVER_ensures(__CPROVER_old(verif_u8_g) == U8_REJ ? verif_u8_g == U8_REJ : __CPROVER_return_value == U8_VERDICT(verif_u8_g, is_complete)) /* @ob C18.word32.verdict */
__CPROVER_ensures((__CPROVER_return_value && __CPROVER_old(verif_u8_g) != U8_REJ) ? U8_SIM(*c, verif_u8_g) : (U8_REP_OK(*c))) /* @ob C18.word32.state-simulates */
__CPROVER_ensures((verif_u8_g == U8_REJ && __CPROVER_old(verif_u8_g) != U8_REJ) ==> U8_INIT(*c)) /* @ob C18.word32.reset-on-reject */
;

bool cjet_is_word64_sequence_valid(struct cjet_utf8_checker *c, const uint64_t *sequence, size_t length, bool is_complete)
__CPROVER_requires(__CPROVER_is_fresh(c, sizeof(*c)))
__CPROVER_requires(length <= 125000 && __CPROVER_r_ok(sequence, length * 8))
__CPROVER_requires(U8_REP_OK(*c) && (verif_u8_g == U8_REJ || (U8_ABS(*c) == verif_u8_g && U8_AT(sequence) && verif_u8_n <= 4000000)))
__CPROVER_assigns(*c, verif_u8_g, verif_u8_n)
__CPROVER_ensures(verif_u8_g == U8_REJ || verif_u8_n == __CPROVER_old(verif_u8_n) + (length * 8)) /* @ob C18.word64.consumed-all */
__CPROVER_ensures(__CPROVER_old(verif_u8_g) == U8_REJ ? verif_u8_g == U8_REJ : __CPROVER_return_value == U8_VERDICT(verif_u8_g, is_complete)) /* @ob C18.word64.verdict */
__CPROVER_ensures((__CPROVER_return_value && __CPROVER_old(verif_u8_g) != U8_REJ) ? U8_SIM(*c, verif_u8_g) : (U8_REP_OK(*c))) /* @ob C18.word64.state-simulates */
__CPROVER_ensures((verif_u8_g == U8_REJ && __CPROVER_old(verif_u8_g) != U8_REJ) ==> U8_INIT(*c)) /* @ob C18.word64.reset-on-reject */
;

bool cjet_is_word_sequence_valid_auto_alligned(struct cjet_utf8_checker *c, const void *sequence, size_t byte_length, bool is_complete)
__CPROVER_requires(__CPROVER_is_fresh(c, sizeof(*c)))
__CPROVER_requires(byte_length <= 1000000 && __CPROVER_r_ok(sequence, byte_length))
__CPROVER_requires(U8_REP_OK(*c) && (verif_u8_g == U8_REJ || (U8_ABS(*c) == verif_u8_g && U8_AT(sequence) && verif_u8_n <= 4000000)))
__CPROVER_assigns(*c, verif_u8_g, verif_u8_n)
__CPROVER_ensures(verif_u8_g == U8_REJ || verif_u8_n == __CPROVER_old(verif_u8_n) + (byte_length)) /* @ob C18.auto.consumed-all */
__CPROVER_ensures(__CPROVER_old(verif_u8_g) == U8_REJ ? verif_u8_g == U8_REJ : __CPROVER_return_value == U8_VERDICT(verif_u8_g, is_complete)) /* @ob C18.auto.verdict */
__CPROVER_ensures((__CPROVER_return_value && __CPROVER_old(verif_u8_g) != U8_REJ) ? U8_SIM(*c, verif_u8_g) : (U8_REP_OK(*c))) /* @ob C18.auto.state-simulates */
;

void cjet_init_checker(struct cjet_utf8_checker *c)
__CPROVER_requires(__CPROVER_is_fresh(c, sizeof(*c)))
__CPROVER_assigns(*c)
__CPROVER_ensures(U8_INIT(*c)) /* @ob C18.init */
;
#endif

#endif
